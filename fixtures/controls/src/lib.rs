//! Positive controls for the zero-expected matchers of the cfdp-sa rules: every snippet
//! here deliberately violates one rule template. They go through the same driver and the
//! same predicates on every run; a predicate that stops matching its control aborts the
//! check with an internal error instead of letting the rule pass vacuously.
#![allow(dead_code, static_mut_refs)]
use std::sync::Mutex;

/// C11-I4: global mutable state.
pub static mut COUNTER: u32 = 0;
/// C11-I4: interior-mutable global.
pub static SHARED: Mutex<u32> = Mutex::new(0);
/// not flagged: immutable, freeze.
pub static TABLE: [u8; 4] = [1, 2, 3, 4];

/// C01-W / C12-R4: a path-taking filesystem call outside the FileStore trait.
pub fn raw_fs(path: &str) -> std::io::Result<()> {
    std::fs::remove_file(path)
}

/// C06-P1: unchecked arithmetic on an input byte.
pub fn overflow_add(input: &[u8; 1]) -> u8 {
    input[0] + 1
}

/// C06-P1: unwrap on something derived from input.
pub fn unwrap_input(input: &[u8]) -> u8 {
    *input.first().unwrap()
}

/// C06-P1: index without a bound.
pub fn index_unbounded(input: &[u8], i: usize) -> u8 {
    input[i]
}

/// C06-P1: slice with an input-controlled end.
pub fn slice_unbounded(input: &[u8], n: usize) -> &[u8] {
    &input[..n]
}

/// C06-P1: division by an input byte.
pub fn div_input(a: u32, b: u8) -> u32 {
    a / b as u32
}

/// C06-P3: allocation sized by a 32-bit field.
pub fn alloc_wide(n: u32) -> Vec<u8> {
    vec![0u8; n as usize]
}

/// discharged: masked value plus one cannot overflow.
pub fn discharged_add(input: &[u8; 1]) -> u8 {
    (input[0] & 0x7) + 1
}

/// C06-P4: lossy text conversion in a decoder.
pub fn lossy_text(input: &[u8]) -> String {
    String::from_utf8_lossy(input).into_owned()
}

/// Normalisation control (sa/inline.py): `split_caller` was "refactored" into a caller and a
/// private helper; after splicing, the caller's body must contain the helper's raw filesystem
/// call, guarded by the flag computed in the caller, and the helper must be gone.
pub struct Splitter {
    pub armed: bool,
    pub hits: u32,
}

impl Splitter {
    pub fn split_caller(&mut self, path: &str) -> std::io::Result<u32> {
        let go = match self.armed {
            true => true,
            false => false,
        };
        let n = self.split_helper(go, path)?;
        Ok(n + 1)
    }

    fn split_helper(&mut self, go: bool, path: &str) -> std::io::Result<u32> {
        if go {
            std::fs::remove_file(path)?;
            self.hits += 1;
        }
        Ok(self.hits)
    }
}

/// Normalisation controls (sa/inline.py, sa/df.py): a helper that works through a `&mut` to a local of the
/// caller (after splicing, the write must be a write to that local), and a helper that reports
/// `Option<bool>` which the caller matches on (the raw filesystem call must sit under
/// `self.armed == true`, never on the `None` path).
pub struct Tally {
    pub armed: bool,
    pub limit: bool,
}

impl Tally {
    pub fn tally_caller(&mut self, xs: &[u64]) -> u64 {
        let mut total = 0u64;
        for x in xs {
            Self::tally_bump(&mut total, *x);
        }
        total
    }

    fn tally_bump(acc: &mut u64, by: u64) {
        *acc += by;
    }

    pub fn verdict_caller(&mut self, path: &str) -> std::io::Result<()> {
        match self.verdict_helper() {
            Some(true) => std::fs::remove_file(path)?,
            Some(false) => {}
            None => {}
        }
        Ok(())
    }

    fn verdict_helper(&mut self) -> Option<bool> {
        if !self.armed {
            return None;
        }
        Some(self.limit)
    }
}

/// C06-P4: a received name rebuilt from its components (normalising).
pub fn lossy_path(p: &std::path::Path) -> std::path::PathBuf {
    p.components().collect()
}

/// C07-S8: a narrowing cast that can truncate ...
pub fn narrow(x: u64) -> u16 {
    x as u16
}

/// ... and one that provably cannot.
pub fn narrow_ok(x: u64) -> u8 {
    (x & 0xff) as u8
}

/// C13-Q5: a call that creates missing ancestors.
pub fn make_all(path: &str) -> std::io::Result<()> {
    std::fs::create_dir_all(path)
}

/// C05-L7: an "encoder" that repairs the value it writes.
pub fn clamping_encode(x: u32, hi: u32) -> [u8; 4] {
    x.min(hi).to_be_bytes()
}
