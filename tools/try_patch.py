#!/usr/bin/env python3
"""Run checks against a variant of /repo in one reusable scratch worktree.
usage: try_patch.py [--revert <commit> | --patch <file> | --at <commit>] PROP [PROP...]
Prints one line per property: FIRED (violations with keys) or SILENT. Cleans up after itself
(the worktree is kept between calls for speed; --cleanup removes it)."""
import os, subprocess, sys, shutil, json, re
V = os.path.dirname(os.path.dirname(os.path.abspath(__file__)))
W = os.environ.get("CFDP_SCRATCH", "/tmp/w/scratch")
TAG = os.environ.get("CFDP_TAG", "scratch")

def sh(cmd, **kw):
    return subprocess.run(cmd, shell=True, stdout=subprocess.PIPE, stderr=subprocess.STDOUT, text=True, **kw)

def ensure():
    if not os.path.isdir(W):
        os.makedirs(os.path.dirname(W), exist_ok=True)
        r = sh("git -C /repo worktree add -q --detach %s HEAD" % W)
        if r.returncode: sys.exit("worktree: " + r.stdout)
    sh("git -C %s checkout -q --detach $(git -C /repo rev-parse HEAD) && git -C %s checkout -- . && git -C %s clean -fdq" % (W, W, W))
    shutil.copy("/repo/Cargo.lock", W + "/Cargo.lock")

def main():
    a = sys.argv[1:]
    if a and a[0] == "--cleanup":
        sh("git -C /repo worktree remove --force %s" % W); shutil.rmtree(V + "/.cache/target-scratch-dev", ignore_errors=True); return
    ensure()
    base = None
    if a[0] == "--base":
        base = a[1]; a = a[2:]
        r0 = sh("git -C %s checkout -q --detach %s" % (W, base)); shutil.copy("/repo/Cargo.lock", W + "/Cargo.lock")
        if r0.returncode:
            print("APPLY-FAILED base", r0.stdout[-200:]); sys.exit(2)
    mode = a[0]; arg = a[1]; props = a[2:]
    if mode == "--revert":
        r = sh("git -C %s revert -n %s" % (W, arg))
    elif mode == "--patch":
        r = sh("git -C %s apply %s" % (W, os.path.abspath(arg)))
        if r.returncode:
            r = sh("git -C %s apply --3way %s" % (W, os.path.abspath(arg)))
            if r.returncode or "conflict" in r.stdout.lower():
                sh("git -C %s checkout -- . ; git -C %s reset -q --hard" % (W, W))
                r.returncode = 1
    elif mode == "--none":
        props = a[1:]
        r = sh("true")
    elif mode == "--at":
        r = sh("git -C %s checkout -q --detach %s" % (W, arg)); shutil.copy("/repo/Cargo.lock", W + "/Cargo.lock")
    elif mode == "--sub":
        # --sub <file> <old> <new> PROP...   (old must occur exactly once)
        fn, old, new = a[1], a[2], a[3]; props = a[4:]
        src = open(os.path.join(W, fn)).read()
        if src.count(old) != 1:
            print("APPLY-FAILED: %d occurrences" % src.count(old)); sys.exit(2)
        open(os.path.join(W, fn), "w").write(src.replace(old, new))
        r = sh("true")
    else:
        sys.exit("mode?")
    if r.returncode:
        print("APPLY-FAILED", r.stdout[-400:]); sys.exit(2)
    rc = 0
    r = sh("%s/check %s --repo %s --tag %s" % (V, ",".join(props), W, TAG))
    chunks = r.stdout.split("=== ") if len(props) > 1 else ["%s\n%s" % (props[0], r.stdout)]
    for ch in chunks:
        if not ch.strip():
            continue
        p = ch.split("\n", 1)[0].strip()
        body = ch.split("\n", 1)[1] if "\n" in ch else ""
        viol = [l.strip() for l in body.splitlines() if l.strip().startswith(("rule violated:", "UNDECIDED", "ANCHOR-MISSING"))]
        if re.search(r"^INTERNAL:", body, re.M) or "Traceback (most recent call last)" in body:
            print(p, "INTERNAL", body[-600:])
        elif viol:
            print(p, "FIRED", len(viol)); [print("    ", v[:230]) for v in viol[:6]]
        else:
            print(p, "SILENT", (body.strip().splitlines() or [""])[-1][:120])
    sh("git -C %s revert --abort; git -C %s checkout -- . " % (W, W))

main()
