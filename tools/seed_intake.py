#!/usr/bin/env python3
"""Confirm and take in the seeded changes a sub-agent left in /tmp/seed/<ID>/out/m*/.
For each: in the agent's scratch worktree (clean) check
  demo alone passes, patch+demo fails, patch alone passes the whole suite;
then run our checks against the patch (scratch worktree, via try_patch) and store
/verif/seeded/<ID>-m<k>/{patch.diff,demo.diff,meta.json}.
usage: seed_intake.py ID [--props P1,P2,...] [--keep-worktree]"""
import json, os, re, shutil, subprocess, sys

V = os.path.dirname(os.path.dirname(os.path.abspath(__file__)))
ALLP = ["C01", "C04", "C05", "C06", "C07", "C08", "C09", "C10", "C11", "C12", "C13", "C14", "C15", "C16", "C17", "C18", "C19", "C20"]


def sh(cmd, cwd=None, timeout=3000):
    r = subprocess.run(cmd, shell=True, cwd=cwd, stdout=subprocess.PIPE, stderr=subprocess.STDOUT, text=True, timeout=timeout)
    return r.returncode, r.stdout


def clean(wt):
    sh("git checkout -q -- . && git clean -fdq -e target", cwd=wt)


def suite(wt):
    rc, out = sh("CARGO_NET_OFFLINE=true cargo test --workspace --offline --no-fail-fast 2>&1", cwd=wt)
    failed = [l for l in out.splitlines() if re.match(r"^test .* FAILED$", l) and not re.match(r"^test (f1s08|f1s09|f1s10) |^test filestore::test::checksum_file::", l)]
    comp = "could not compile" in out or "error[E" in out
    return (not failed and not comp), failed[:5] + (["COMPILE ERROR"] if comp else [])


def main():
    pid = sys.argv[1]
    props = None
    keep = "--keep-worktree" in sys.argv
    for i, a in enumerate(sys.argv):
        if a == "--props":
            props = sys.argv[i + 1].split(",")
    base = os.path.join(os.environ.get("SEED_DIR", "/tmp/seed"), pid)
    wave = os.environ.get("SEED_WAVE", "")
    wt = base + "/wt"
    outs = sorted(d for d in os.listdir(base + "/out") if os.path.isdir(os.path.join(base, "out", d)))
    import importlib.util
    sys.path.insert(0, os.path.join(V, "sa"))
    from props import PROPS
    claimed = [p for p in ALLP if p in PROPS]
    for m in outs:
        d = os.path.join(base, "out", m)
        meta = json.load(open(os.path.join(d, "meta.json")))
        res = {"id": "%s-%s%s" % (pid, wave, m)}
        clean(wt)
        rc, o = sh("git apply %s/demo.diff" % d, cwd=wt)
        if rc:
            res["error"] = "demo.diff does not apply: " + o[-300:]
            print(json.dumps(res)); continue
        rc1, o1 = sh("CARGO_NET_OFFLINE=true " + meta["demo_cmd"].split("&&")[-1].strip() + " 2>&1", cwd=wt)
        res["demo_alone_passes"] = rc1 == 0
        rc, o = sh("git apply %s/patch.diff" % d, cwd=wt)
        if rc:
            res["error"] = "patch.diff does not apply on demo: " + o[-300:]
            print(json.dumps(res)); clean(wt); continue
        rc2, o2 = sh("CARGO_NET_OFFLINE=true " + meta["demo_cmd"].split("&&")[-1].strip() + " 2>&1", cwd=wt)
        res["demo_with_patch_fails"] = rc2 != 0
        res["demo_fail_excerpt"] = [l for l in o2.splitlines() if "panicked" in l or "FAILED" in l][:4]
        clean(wt)
        rc, o = sh("git apply %s/patch.diff" % d, cwd=wt)
        okk, failed = suite(wt)
        res["suite_passes_with_patch"] = okk
        res["suite_failures"] = failed
        clean(wt)
        # our checks
        want = props or claimed
        rc, o = sh("python3 %s/tools/try_patch.py --patch %s/patch.diff %s" % (V, d, " ".join(want)))
        fired = {}
        cur = None
        for l in o.splitlines():
            mm = re.match(r"^(C\d\d) (FIRED|SILENT|INTERNAL)", l)
            if mm:
                cur = mm.group(1)
                fired[cur] = {"verdict": mm.group(2), "keys": []}
            elif cur and l.strip().startswith(("rule violated", "UNDECIDED", "ANCHOR")):
                fired[cur]["keys"].append(l.strip()[:200])
            elif "APPLY-FAILED" in l:
                res["try_patch"] = l
        res["checks"] = {p: v for p, v in fired.items() if v["verdict"] != "SILENT"}
        res["silent"] = [p for p, v in fired.items() if v["verdict"] == "SILENT"]
        valid = res.get("demo_alone_passes") and res.get("demo_with_patch_fails") and res.get("suite_passes_with_patch")
        res["confirmed"] = bool(valid)
        if valid:
            dst = os.path.join(V, "seeded", "%s-%s%s" % (pid, wave, m))
            os.makedirs(dst, exist_ok=True)
            shutil.copy(os.path.join(d, "patch.diff"), dst)
            shutil.copy(os.path.join(d, "demo.diff"), dst)
            meta2 = {
                "property": pid,
                "summary": meta.get("summary"),
                "needs": meta.get("needs"),
                "demo_cmd": meta.get("demo_cmd"),
                "confirmed_by": [
                    "clean worktree + demo.diff: demo passes",
                    "clean worktree + patch.diff + demo.diff: demo fails (%s)" % "; ".join(res["demo_fail_excerpt"])[:300],
                    "clean worktree + patch.diff: cargo test --workspace --offline passes (f1s08/f1s09/f1s10 and the two racing cases of filestore::test::checksum_file are flaky on the baseline, ignored)",
                ],
                "checks_at_intake": {"fired": {p: v["keys"] for p, v in res["checks"].items()}, "silent": res["silent"]},
            }
            json.dump(meta2, open(os.path.join(dst, "meta.json"), "w"), indent=1)
        print(json.dumps(res, indent=1))
    if not keep:
        sh("git -C /repo worktree remove --force %s" % wt)
        shutil.rmtree(base + "/wt", ignore_errors=True)


main()
