#!/usr/bin/env python3
"""Regenerate /verif/MANIFEST.json from sa/props.py (claimed) and the N/A table."""
import json, os, sys
V = os.path.dirname(os.path.dirname(os.path.abspath(__file__)))
sys.path.insert(0, os.path.join(V, "sa"))
from props import PROPS, NOT_APPLICABLE, TECHNIQUE
ALL = ["C%02d" % i for i in range(1, 21)]
checks = []
for p in ALL:
    if p not in PROPS:
        continue
    d = PROPS[p]
    checks.append({
        "property_id": p,
        "quick_cmd": "./check %s --tier quick" % p,
        "thorough_cmd": "./check %s --tier thorough" % p,
        "evidence_file": "/verif/evidence/%s.json" % p,
        "replay_cmd_template": "./check %s --replay {path}" % p,
        "engine": "cfdp-sa",
        "level_claimed": {
            "category": "other",
            "text": "Static analysis of the type-checked program (rustc MIR of both workspace crates, re-extracted from /repo's working tree on every run). Decides a structural clause that is a necessary condition of the property, on every path / call site / sibling implementation: " + d["decided"] + " NOT decided: " + d["not_decided"],
            "design_ref": "DESIGN.md §4 " + p,
        },
        "level_note": "Trusted: rustc's MIR construction and trait resolution; the summaries of std/tokio/camino callees in sa/tables.py; the analyses in /verif/sa. Partial claim: the clause, not the whole behaviour. Floors fail closed when an anchored function is renamed.",
        "technique": TECHNIQUE.get(p, "static analysis over rustc MIR facts"),
    })
na = [{"property_id": p, "reason": NOT_APPLICABLE[p]} for p in ALL if p not in PROPS]
m = {
    "version": 1,
    "setup_cmd": "./setup.sh",
    "hooks": {
        "guard": "cfdp_verif",
        "enable": "none needed: the analysis reads the unmodified sources (no instrumentation is compiled into cfdp-rs); checks run `cargo +nightly check` on /repo with the fact-extracting rustc wrapper",
        "baseline_off_cmd": "cd /repo && cargo test --workspace --no-fail-fast --offline",
        "source_commits": [],
        "add_only": True,
    },
    "engines": [{
        "name": "cfdp-sa",
        "path": "/verif/driver + /verif/sa",
        "serves_properties": [c["property_id"] for c in checks],
        "kind_free_text": "custom rustc_private driver dumping built MIR/ADT facts + Python analyses (call graph, expression/origin reconstruction, path-sensitive world-set dataflow with mod/ref summaries, guarded reachability, intervals, codec bit-field/tag-table/length-form extraction)",
    }],
    "checks": checks,
    "not_applicable": na,
    "notes": "Static-analysis family only: no registered command runs cfdp-rs code. known_findings.json lists genuine defects recorded rather than repaired (exact-key suppression) and the defects repaired by fix: commits in /repo.",
}
json.dump(m, open(os.path.join(V, "MANIFEST.json"), "w"), indent=1)
print("claimed:", [c["property_id"] for c in checks], "n/a:", [x["property_id"] for x in na])
