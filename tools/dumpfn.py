#!/usr/bin/env python3
"""debug: tools/dumpfn.py <repo-dir> <fn-suffix>  -> blocks of the (normalised) function, rendered"""
import os, sys
sys.path.insert(0, os.path.join(os.path.dirname(os.path.dirname(os.path.abspath(__file__))), "sa"))
import facts as factsmod, engine
from core import ExprBuilder, expr_str

facts, th = factsmod.extract(repo=sys.argv[1], profile="dev", target_tag="s")
ctx = engine.Ctx(facts, th, "quick")
for f in ctx.prog.find(sys.argv[2]):
    eb = ExprBuilder(ctx.prog, f, inline=False)
    print("==", f.norm, "args", f.arg_count)
    for b in f.live_blocks():
        blk = f.blocks[b]
        print(" bb%d:" % b)
        for s in blk["stmts"]:
            if s["k"] == "assign":
                print("    %s = %s%s" % (f.place_str(s["place"]), expr_str(eb.rvalue(s["rv"]))[:150], "   [inl-arg]" if s.get("inlined_arg") else ("   [inl-ret]" if s.get("inlined_ret") else "")))
            else:
                print("    ", s["k"], f.place_str(s["place"]) if "place" in s else "")
        t = blk["term"]
        if t["k"] == "call":
            print("    %s = CALL %s -> bb%s" % (f.place_str(t["dest"]), expr_str(eb.call(b, t))[:150], t.get("target")))
        elif t["k"] == "switch":
            print("    SWITCH %s %s else bb%s" % (expr_str(eb.operand(t["discr"]))[:120], t["targets"], t["otherwise"]))
        else:
            print("    %s %s" % (t["k"].upper(), [x for _, x in [(0, y) for y in f.succs(b)]]))
