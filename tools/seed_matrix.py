#!/usr/bin/env python3
"""Run every registered check against every confirmed seeded change (/verif/seeded/*/patch.diff,
applied to a scratch worktree of /repo, never to /repo itself) and write
/verif/seeded/MATRIX.json + MATRIX.md: which checks fire on which change.
usage: seed_matrix.py [ID ...]      (default: all)"""
import json, os, re, subprocess, sys

V = os.path.dirname(os.path.dirname(os.path.abspath(__file__)))
sys.path.insert(0, os.path.join(V, "sa"))
from props import PROPS

SEED_BASES = ["b788a24", "87c37a6", "3f0a31d"]  # earlier /repo HEADs the seeding sub-agents worked from (newest first)
_BASELINES = {}
ALL = [p for p in ["C%02d" % i for i in range(1, 21)] if p in PROPS]


def merge(paths):
    path = os.path.join(V, "seeded", "MATRIX.json")
    mat = json.load(open(path)) if os.path.exists(path) else {}
    for p in paths:
        mat.update(json.load(open(p)))
    mat = {k: v for k, v in mat.items() if os.path.isdir(os.path.join(V, "seeded", k))}
    json.dump(mat, open(path, "w"), indent=1)
    write_md(mat)
    print(len(mat), "changes;", len([1 for m in mat.values() if m["fired"]]), "detected")


def main():
    if sys.argv[1:2] == ["merge"]:
        return merge(sys.argv[2:])
    ids = sys.argv[1:] or sorted(d for d in os.listdir(os.path.join(V, "seeded")) if os.path.isdir(os.path.join(V, "seeded", d)))
    path = os.environ.get("SEED_MATRIX", os.path.join(V, "seeded", "MATRIX.json"))
    mat = json.load(open(path)) if os.path.exists(path) else {}
    env = dict(os.environ, CFDP_SCRATCH=os.environ.get("CFDP_SCRATCH", "/tmp/w/matrix"), CFDP_TAG=os.environ.get("CFDP_TAG", "matrix"))
    for sid in ids:
        d = os.path.join(V, "seeded", sid)
        r = subprocess.run(["python3", os.path.join(V, "tools", "try_patch.py"), "--patch", os.path.join(d, "patch.diff")] + ALL, stdout=subprocess.PIPE, stderr=subprocess.STDOUT, text=True, env=env)
        baseline = set()
        used_base = None
        if "APPLY-FAILED" in r.stdout:
            # the change was written against an older /repo HEAD (before later fix: commits): run the
            # checks on that base + change and subtract what the base alone reports
            for cand in SEED_BASES:
                r2 = subprocess.run(["python3", os.path.join(V, "tools", "try_patch.py"), "--base", cand, "--patch", os.path.join(d, "patch.diff")] + ALL, stdout=subprocess.PIPE, stderr=subprocess.STDOUT, text=True, env=env)
                if "APPLY-FAILED" in r2.stdout:
                    continue
                used_base = cand
                r = r2
                if cand not in _BASELINES:
                    rb = subprocess.run(["python3", os.path.join(V, "tools", "try_patch.py"), "--base", cand, "--none"] + ALL, stdout=subprocess.PIPE, stderr=subprocess.STDOUT, text=True, env=env)
                    bl = set()
                    for l in rb.stdout.splitlines():
                        if l.strip().startswith(("rule violated", "UNDECIDED", "ANCHOR")):
                            bl.add(re.sub(r"^(rule violated|UNDECIDED \(fail-closed\)|ANCHOR-MISSING/FLOOR \(fail-closed; not a rule violation\)): ", "", l.strip()).split(" at ")[0])
                    _BASELINES[cand] = bl
                baseline = _BASELINES[cand]
                break
        fired = {}
        cur = None
        for l in r.stdout.splitlines():
            m = re.match(r"^(C\d\d) (FIRED|SILENT|INTERNAL)", l)
            if m:
                cur = m.group(1)
                if m.group(2) != "SILENT":
                    fired[cur] = {"verdict": m.group(2), "keys": []}
            elif cur in fired and l.strip().startswith(("rule violated", "UNDECIDED", "ANCHOR")):
                k = l.strip()
                k = re.sub(r"^(rule violated|UNDECIDED \(fail-closed\)|ANCHOR-MISSING/FLOOR \(fail-closed; not a rule violation\)): ", "", k).split(" at ")[0]
                if k not in baseline:
                    fired[cur]["keys"].append(k)
        fired = {p_: v for p_, v in fired.items() if v["keys"] or v["verdict"] == "INTERNAL"}
        meta = json.load(open(os.path.join(d, "meta.json")))
        mat[sid] = {"property": meta["property"], "summary": meta.get("summary"), "fired": fired, "apply_failed": "APPLY-FAILED" in r.stdout, "base": used_base or "HEAD"}
        print(sid, "->", {k: v["keys"][:2] for k, v in fired.items()} or "SILENT", flush=True)
        json.dump(mat, open(path, "w"), indent=1)
    write_md(mat)


def write_md(mat):
    lines = ["# Seeded changes vs checks", "", "Each change breaks the named property, compiles and passes the unedited test suite (confirmed at intake; see each meta.json).", "", "| change | breaks | caught by (rule instances) | own property's check fires |", "|---|---|---|---|"]
    for sid in sorted(mat):
        m = mat[sid]
        caught = "; ".join("%s: %s" % (p, ", ".join(sorted({k.split(":")[0] for k in v["keys"]}) or [v["verdict"]])) for p, v in sorted(m["fired"].items())) or "**not detected**"
        own = "yes" if m["property"] in m["fired"] else "no"
        lines.append("| %s | %s | %s | %s |" % (sid, m["property"], caught, own))
    n = len(mat)
    det = len([1 for m in mat.values() if m["fired"]])
    own = len([1 for m in mat.values() if m["property"] in m["fired"]])
    lines += ["", "%d changes; %d detected by at least one check, %d by the check of the property they were written against." % (n, det, own)]
    open(os.path.join(V, "seeded", "MATRIX.md"), "w").write("\n".join(lines) + "\n")


main()
