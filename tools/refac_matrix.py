#!/usr/bin/env python3
"""Take in behaviour-preserving refactorings written by sub-agents (/tmp/refac/<K>/out/r*/),
confirm each still passes the unedited test suite (in the agent's scratch worktree), store
them under /verif/refactors/<K>-r<k>/ and run every check against each on a scratch
worktree: any report is a false alarm (or a fail-closed anchor/idiom report) to be triaged.
usage: refac_matrix.py intake K [K..] | run [ID..]"""
import json, os, re, shutil, subprocess, sys

V = os.path.dirname(os.path.dirname(os.path.abspath(__file__)))
sys.path.insert(0, os.path.join(V, "sa"))
from props import PROPS

ALL = [p for p in ["C%02d" % i for i in range(1, 21)] if p in PROPS]
if os.environ.get("REFAC_PROPS"):  # partial run for a quick look (write it to a separate REFAC_MATRIX, never merge it)
    ALL = os.environ["REFAC_PROPS"].split(",")
RD = os.path.join(V, "refactors")
BASES = ["b788a24", "87c37a6", "3f0a31d"]  # earlier /repo HEADs the refactorings were written against (newest first)
_BASELINES = {}


def sh(cmd, cwd=None, env=None):
    r = subprocess.run(cmd, shell=True, cwd=cwd, stdout=subprocess.PIPE, stderr=subprocess.STDOUT, text=True, env=env)
    return r.returncode, r.stdout


def intake(ks):
    nosuite = "--no-suite" in ks
    ks = [k for k in ks if not k.startswith("--")]
    for k in ks:
        base = os.path.join(os.environ.get("REFAC_DIR", "/tmp/refac"), k)
        wt = base + "/wt"
        for r in sorted(os.listdir(base + "/out")):
            d = os.path.join(base, "out", r)
            if not os.path.exists(d + "/patch.diff"):
                continue
            sh("git checkout -q -- . && git clean -fdq -e target", cwd=wt)
            rc, o = sh("git apply %s/patch.diff" % d, cwd=wt)
            if rc:
                print(k, r, "does not apply", o[-200:]); continue
            rc, out = (0, "") if nosuite else sh("CARGO_NET_OFFLINE=true cargo test --workspace --offline --no-fail-fast 2>&1", cwd=wt)
            failed = [l for l in out.splitlines() if re.match(r"^test .* FAILED$", l) and not re.match(r"^test (f1s08|f1s09|f1s10) |^test filestore::test::checksum_file::", l)]
            comp = "could not compile" in out or "error[E" in out
            sh("git checkout -q -- .", cwd=wt)
            if failed or comp:
                print(k, r, "REJECTED: suite", failed[:3], "compile error" if comp else ""); continue
            dst = os.path.join(RD, "%s%s-%s" % (os.environ.get("REFAC_WAVE", ""), k, r))
            os.makedirs(dst, exist_ok=True)
            shutil.copy(d + "/patch.diff", dst)
            meta = json.load(open(d + "/meta.json")) if os.path.exists(d + "/meta.json") else {}
            meta["confirmed_by"] = "sub-agent's own run of cargo test --workspace --offline (see ran)" if nosuite else "clean worktree + patch.diff: cargo test --workspace --offline passes (f1s08-f1s10 flaky, ignored)"
            json.dump(meta, open(dst + "/meta.json", "w"), indent=1)
            print(k, r, "stored")
        if not nosuite:
            sh("git -C /repo worktree remove --force %s" % wt)
            shutil.rmtree(wt, ignore_errors=True)


def run(ids):
    ids = ids or sorted(d for d in os.listdir(RD) if os.path.isdir(os.path.join(RD, d)))
    path = os.environ.get("REFAC_MATRIX", os.path.join(RD, "MATRIX.json"))
    mat = json.load(open(path)) if os.path.exists(path) else {}
    env = dict(os.environ, CFDP_SCRATCH=os.environ.get("CFDP_SCRATCH", "/tmp/w/refac"), CFDP_TAG=os.environ.get("CFDP_TAG", "refac"))
    for rid in ids:
        d = os.path.join(RD, rid)
        rc, out = sh("python3 %s/tools/try_patch.py --patch %s/patch.diff %s" % (V, d, " ".join(ALL)), env=env)
        baseline = set()
        used_base = None
        if "APPLY-FAILED" in out:
            # written against an earlier /repo HEAD (before a later fix: commit): run on that base and subtract
            # what the base alone reports (the defect that was fixed since)
            for cand in BASES:
                rc2, out2 = sh("python3 %s/tools/try_patch.py --base %s --patch %s/patch.diff %s" % (V, cand, d, " ".join(ALL)), env=env)
                if "APPLY-FAILED" in out2:
                    continue
                used_base = cand
                out = out2
                if cand not in _BASELINES:
                    rcb, outb = sh("python3 %s/tools/try_patch.py --base %s --none %s" % (V, cand, " ".join(ALL)), env=env)
                    _BASELINES[cand] = {re.sub(r"^(rule violated|UNDECIDED \(fail-closed\)|ANCHOR-MISSING/FLOOR \(fail-closed; not a rule violation\)): ", "", l.strip()).split(" at ")[0] for l in outb.splitlines() if l.strip().startswith(("rule violated", "UNDECIDED", "ANCHOR"))}
                baseline = _BASELINES[cand]
                break
        fired = {}
        cur = None
        for l in out.splitlines():
            m = re.match(r"^(C\d\d) (FIRED|SILENT|INTERNAL)", l)
            if m:
                cur = m.group(1)
                if m.group(2) != "SILENT":
                    fired[cur] = {"verdict": m.group(2), "keys": []}
            elif cur in fired and l.strip().startswith(("rule violated", "UNDECIDED", "ANCHOR")):
                kk = re.sub(r"^(rule violated|UNDECIDED \(fail-closed\)|ANCHOR-MISSING/FLOOR \(fail-closed; not a rule violation\)): ", "", l.strip()).split(" at ")[0]
                if kk not in baseline:
                    fired[cur]["keys"].append(l.strip()[:260])
        fired = {p_: v for p_, v in fired.items() if v["keys"] or v["verdict"] == "INTERNAL"}
        meta = json.load(open(os.path.join(d, "meta.json")))
        mat[rid] = {"style": meta.get("style"), "functions": meta.get("functions"), "fired": fired, "apply_failed": "APPLY-FAILED" in out, "base": used_base or "HEAD"}
        print(rid, "->", {k: v["keys"][:2] for k, v in fired.items()} or "silent", "APPLY-FAILED" if "APPLY-FAILED" in out else "", flush=True)
        json.dump(mat, open(path, "w"), indent=1)
    write_md(mat)


def merge(paths):
    """merge shard matrices (REFAC_MATRIX=... runs) into refactors/MATRIX.json and regenerate MATRIX.md"""
    path = os.path.join(RD, "MATRIX.json")
    mat = json.load(open(path)) if os.path.exists(path) else {}
    for p in paths:
        mat.update(json.load(open(p)))
    mat = {k: v for k, v in mat.items() if os.path.isdir(os.path.join(RD, k))}
    json.dump(mat, open(path, "w"), indent=1)
    write_md(mat)
    print(len(mat), "refactorings;", len([1 for m in mat.values() if not m["fired"]]), "silent")


def write_md(mat):
    lines = ["# Behaviour-preserving refactorings vs checks", "", "Every report here is a false alarm or a fail-closed anchor/idiom report.", "", "| refactoring | style | reports |", "|---|---|---|"]
    for rid in sorted(mat):
        m = mat[rid]
        rep = "; ".join("%s: %s" % (p, ", ".join(sorted({re.sub(r'^(rule violated|UNDECIDED \(fail-closed\)|ANCHOR-MISSING/FLOOR \(fail-closed; not a rule violation\)): ', '', k).split(' at ')[0].split(':')[0] for k in v["keys"]}) or [v["verdict"]])) for p, v in sorted(m["fired"].items())) or "silent"
        lines.append("| %s | %s | %s |" % (rid, (m.get("style") or "")[:70], rep))
    n = len(mat)
    q = len([1 for m in mat.values() if not m["fired"]])
    lines += ["", "%d refactorings; %d leave every check silent." % (n, q)]
    open(os.path.join(RD, "MATRIX.md"), "w").write("\n".join(lines) + "\n")


if __name__ == "__main__":
    os.makedirs(RD, exist_ok=True)
    if sys.argv[1] == "intake":
        intake(sys.argv[2:])
    elif sys.argv[1] == "merge":
        merge(sys.argv[2:])
    else:
        run(sys.argv[2:])
