#!/usr/bin/env python3
"""Write sa/known_fns.json: the functions (normalised paths) the workspace crates have at the
pinned tree.  sa/inline.py splices only functions that are NOT in this table into their callers.
Run once at the pin (and again only when the pin moves)."""
import json, os, subprocess, sys

V = os.path.dirname(os.path.dirname(os.path.abspath(__file__)))
sys.path.insert(0, os.path.join(V, "sa"))
import facts
from core import strip_generics

fx, th = facts.extract()
fns = sorted({strip_generics(b["path"]) for f in fx.values() for b in f["bodies"] if b["kind"] in ("Fn", "AssocFn")})
head = subprocess.run(["git", "-C", "/repo", "rev-parse", "HEAD"], stdout=subprocess.PIPE, text=True).stdout.strip()
json.dump({"repo_commit": head, "functions": fns}, open(os.path.join(V, "sa", "known_fns.json"), "w"), indent=0)
print(len(fns), "functions at", head)
