#!/usr/bin/env python3
"""Write sa/known_fns.json - the *pin table*: the functions (normalised path, signature, callee
fingerprint) and ADTs (variants, fields) the workspace crates have at the pinned tree.
sa/normalise.py uses it to re-bind renamed private functions / fields / variants to the names the
rules know, and sa/inline.py to recognise functions that did not exist at the pin (new helpers).
Run once at the pin (and again only when the pin moves)."""
import json, os, subprocess, sys

V = os.path.dirname(os.path.dirname(os.path.abspath(__file__)))
sys.path.insert(0, os.path.join(V, "sa"))
import facts
from core import strip_generics
from normalise import fn_signature, fn_fingerprint, adt_shape

fx, th = facts.extract()
fns = {}
adts = {}
for crate, f in fx.items():
    for b in f["bodies"]:
        if b["kind"] in ("Fn", "AssocFn"):
            fns[strip_generics(b["path"])] = {"sig": fn_signature(b), "callees": fn_fingerprint(b), "trait": bool(b.get("impl_trait") or b.get("in_trait"))}
    for a in f["adts"]:
        adts[strip_generics(a["path"])] = adt_shape(a)
# pinned callers of every function (used when a function of the pin has been inlined into its caller and deleted)
callers = {}
for crate, f in fx.items():
    for b in f["bodies"]:
        me = strip_generics(b.get("root") or b["path"]) if b["kind"] == "Closure" else strip_generics(b["path"])
        for blk in b["blocks"]:
            t = blk["term"]
            if t.get("k") == "call":
                fu = t.get("func") or {}
                c = fu.get("resolved") if fu.get("resolved_local") else (fu.get("fn") if fu.get("fn_local") else None)
                if c:
                    callers.setdefault(strip_generics(c), set()).add(me)
for k, v in fns.items():
    v["callers"] = sorted(callers.get(k, ()))
# canonical forms: the two-operand expressions (operand order as written at the pin) and the user variable
# names of every function, in the three expression-building modes the rules use
import re
import core
from core import Program, ExprBuilder, binop_key

core.set_canon({}, {})
prog = Program(fx)
binops = {}
varnames = {}
for f in prog.by_norm.values():
    key = (f.root or f.norm) if f.kind == "Closure" else f.norm
    vs = varnames.setdefault(key, set())
    for vn, l, pj in f.var_places:
        if not pj:
            vs.add(re.sub(r"__\d+$", "", vn))
    ks = binops.setdefault(key, set())
    for mode in ({"inline": True, "user_stop": False}, {"inline": True, "user_stop": True}, {"inline": False, "user_stop": False}):
        eb = ExprBuilder(prog, f, **mode)
        for b in f.live_blocks():
            for st in f.blocks[b]["stmts"]:
                if st["k"] == "assign" and st["rv"]["k"] == "binop":
                    e = eb.rvalue(st["rv"])
                    ks.add(binop_key(e[1], e[2], e[3]))
            t = f.blocks[b]["term"]
            if t["k"] == "call":
                e = eb.call(b, t)
                if e[0] == "call" and (e[1] or "").split("::")[-1] in ("min", "max") and len(e[3]) == 2 and ("cmp" in (e[1] or "")):
                    ks.add(binop_key("call:" + e[1].split("::")[-1], e[3][0], e[3][1]))
                if e[0] == "call" and (e[1] or "").split("::")[-1] in ("lt", "le", "gt", "ge", "eq", "ne") and len(e[3]) == 2 and ("PartialOrd" in (e[1] or "") or "PartialEq" in (e[1] or "")):
                    ks.add(binop_key("call:" + e[1].split("::")[-1], e[3][0], e[3][1]))
head = subprocess.run(["git", "-C", "/repo", "rev-parse", "HEAD"], stdout=subprocess.PIPE, text=True).stdout.strip()
json.dump({"repo_commit": head, "functions": sorted(fns), "fn_info": fns, "adts": adts, "binops": {k: sorted(v) for k, v in binops.items() if v}, "vars": {k: sorted(v) for k, v in varnames.items()}}, open(os.path.join(V, "sa", "known_fns.json"), "w"), indent=0, sort_keys=True)
print(len(fns), "functions,", len(adts), "ADTs at", head)
