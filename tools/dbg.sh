#!/bin/sh
# usage: tools/dbg.sh <refactor-or-seed-dir> PROPS  -> details of what fires on the patched copy in /tmp/w/dbg8
rm -rf /tmp/w/dbg8; rsync -a --exclude target --exclude .git /repo/ /tmp/w/dbg8/; (cd /tmp/w/dbg8 && patch -p1 -s < /verif/$1/patch.diff)
/verif/check $2 --repo /tmp/w/dbg8 --tag s 2>&1 | grep -E "rule viol|UNDEC|ANCHOR-MISS" -A1 | grep -v "^--" | cut -c1-${3:-700}
