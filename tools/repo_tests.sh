#!/bin/bash
# Run the repository's own suite (guard off; there are no hooks) and accept only the
# baseline's known non-stable tests as failures (f1s08, f1s09 flaky; f1s10 always fails).
cd "${1:-/repo}" || exit 2
out=$(CARGO_NET_OFFLINE=true cargo test --workspace --offline --no-fail-fast 2>&1)
echo "$out" | grep -E "^test result" 
bad=$(echo "$out" | grep -E "^test .* FAILED$" | grep -vE "^test (f1s08|f1s09|f1s10) " )
passed=$(echo "$out" | grep -E "^test result" | sed -E 's/.* ([0-9]+) passed.*/\1/' | paste -sd+ | bc)
echo "passed=$passed"
if [ -n "$bad" ]; then echo "UNEXPECTED FAILURES:"; echo "$bad"; exit 1; fi
if echo "$out" | grep -q "error\[E\|could not compile"; then echo "$out" | tail -30; exit 1; fi
[ "$passed" -ge 1209 ] || { echo "too few passed"; exit 1; }
echo OK
