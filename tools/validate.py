#!/usr/bin/env python3-vt
import json, jsonschema, glob, sys
jsonschema.validate(json.load(open('/verif/MANIFEST.json')), json.load(open('/root/.vp/MANIFEST.schema.json')))
m = json.load(open('/verif/MANIFEST.json'))
s = json.load(open('/root/.vp/EVIDENCE.schema.json'))
for c in m['checks']:
    jsonschema.validate(json.load(open(c['evidence_file'])), s)
print('valid: manifest +', len(m['checks']), 'evidence files')
