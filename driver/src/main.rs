//! cfdp-sa-driver: rustc wrapper that dumps type-checked facts (built MIR, ADTs,
//! impls) of the workspace crates as JSON.  Injected with RUSTC_WORKSPACE_WRAPPER
//! under `cargo +nightly check`.  Zero cargo dependencies.
//!
//! Facts are taken in `after_expansion` from `tcx.mir_built`, i.e. before borrowck
//! steals the bodies and before the coroutine state transform, so `async` bodies
//! still have ordinary locals and control flow.
#![feature(rustc_private)]
#![allow(clippy::all)]

extern crate rustc_abi;
extern crate rustc_data_structures;
extern crate rustc_driver;
extern crate rustc_hir;
extern crate rustc_interface;
extern crate rustc_middle;
extern crate rustc_session;
extern crate rustc_span;

use rustc_driver::{Callbacks, Compilation};
use rustc_hir::def::DefKind;
use rustc_hir::def_id::{DefId, LocalDefId};
use rustc_interface::interface::Compiler;
use rustc_middle::mir::{
    self, AggregateKind, AssertKind, BasicBlockData, Body, Const, Operand, Place, PlaceElem,
    Rvalue, StatementKind, TerminatorKind,
};
use rustc_middle::ty::print::with_no_trimmed_paths;
use rustc_middle::ty::{self, Instance, Ty, TyCtxt, TypingEnv};
use rustc_span::Span;
use std::fmt::Write as _;
use std::sync::{Mutex, OnceLock};

// ---------------------------------------------------------------- stash of built MIR
// Type checking one function can ask for the coroutine witnesses of another (an `async fn`
// whose future must be `Send`), which runs that body's later MIR passes and *steals* its
// `mir_built` before this driver has read it.  The `mir_built` provider is therefore wrapped:
// every body is copied into the arena at the moment it is built, and facts are taken from
// the copies.
type MirBuiltFn = for<'tcx> fn(TyCtxt<'tcx>, LocalDefId) -> &'tcx rustc_data_structures::steal::Steal<Body<'tcx>>;
static DEFAULT_MIR_BUILT: OnceLock<MirBuiltFn> = OnceLock::new();
static STASH: Mutex<Vec<(LocalDefId, usize)>> = Mutex::new(Vec::new());

fn stash_mir_built<'tcx>(tcx: TyCtxt<'tcx>, def: LocalDefId) -> &'tcx rustc_data_structures::steal::Steal<Body<'tcx>> {
    let r = (DEFAULT_MIR_BUILT.get().expect("default mir_built provider"))(tcx, def);
    let copy: &'tcx Body<'tcx> = tcx.arena.alloc(r.borrow().clone());
    STASH.lock().unwrap().push((def, copy as *const Body<'tcx> as usize));
    r
}

fn stashed<'tcx>(tcx: TyCtxt<'tcx>, def: LocalDefId) -> &'tcx Body<'tcx> {
    let _ = tcx.mir_built(def); // force the build (and with it the stash entry)
    let g = STASH.lock().unwrap();
    let p = g.iter().find(|(d, _)| *d == def).expect("stashed body").1;
    // SAFETY: the copy lives in tcx's arena, i.e. for 'tcx
    unsafe { &*(p as *const Body<'tcx>) }
}

// ---------------------------------------------------------------- JSON
enum J {
    Null,
    Bool(bool),
    Num(i128),
    Str(String),
    Arr(Vec<J>),
    Obj(Vec<(&'static str, J)>),
}
fn s<T: Into<String>>(x: T) -> J {
    J::Str(x.into())
}
fn esc(out: &mut String, v: &str) {
    out.push('"');
    for c in v.chars() {
        match c {
            '"' => out.push_str("\\\""),
            '\\' => out.push_str("\\\\"),
            '\n' => out.push_str("\\n"),
            '\r' => out.push_str("\\r"),
            '\t' => out.push_str("\\t"),
            c if (c as u32) < 0x20 => {
                let _ = write!(out, "\\u{:04x}", c as u32);
            }
            c => out.push(c),
        }
    }
    out.push('"');
}
impl J {
    fn write(&self, out: &mut String) {
        match self {
            J::Null => out.push_str("null"),
            J::Bool(b) => out.push_str(if *b { "true" } else { "false" }),
            J::Num(n) => {
                let _ = write!(out, "{}", n);
            }
            J::Str(v) => esc(out, v),
            J::Arr(a) => {
                out.push('[');
                for (i, x) in a.iter().enumerate() {
                    if i > 0 {
                        out.push(',');
                    }
                    x.write(out);
                }
                out.push(']');
            }
            J::Obj(o) => {
                out.push('{');
                for (i, (k, x)) in o.iter().enumerate() {
                    if i > 0 {
                        out.push(',');
                    }
                    esc(out, k);
                    out.push(':');
                    x.write(out);
                }
                out.push('}');
            }
        }
    }
}

// ---------------------------------------------------------------- helpers
struct Cx<'tcx> {
    tcx: TyCtxt<'tcx>,
}

impl<'tcx> Cx<'tcx> {
    fn path(&self, d: DefId) -> String {
        let tcx = self.tcx;
        let p = with_no_trimmed_paths!(tcx.def_path_str(d));
        if d.is_local() {
            format!("{}::{}", tcx.crate_name(d.krate), p)
        } else {
            p
        }
    }
    fn ty(&self, t: Ty<'tcx>) -> String {
        with_no_trimmed_paths!(format!("{}", t))
    }
    fn span(&self, sp: Span) -> J {
        let sm = self.tcx.sess.source_map();
        let exp = sp.from_expansion();
        let mac = if exp {
            let d = sp.ctxt().outer_expn_data();
            match d.kind {
                rustc_span::ExpnKind::Macro(_, name) => Some(name.to_string()),
                rustc_span::ExpnKind::Desugaring(k) => Some(format!("desugar:{:?}", k)),
                rustc_span::ExpnKind::AstPass(k) => Some(format!("astpass:{:?}", k)),
                _ => None,
            }
        } else {
            None
        };
        // the user-visible call site for expansions
        let site = if exp { sp.source_callsite() } else { sp };
        let lo = sm.lookup_char_pos(site.lo());
        let hi = sm.lookup_char_pos(site.hi());
        let file = match &lo.file.name {
            rustc_span::FileName::Real(r) => r
                .local_path()
                .map(|p| p.to_string_lossy().to_string())
                .unwrap_or_else(|| format!("{:?}", lo.file.name)),
            other => format!("{:?}", other),
        };
        J::Obj(vec![
            ("file", s(file)),
            ("line", J::Num(lo.line as i128)),
            ("col", J::Num(lo.col.0 as i128 + 1)),
            ("eline", J::Num(hi.line as i128)),
            ("exp", J::Bool(exp)),
            ("mac", mac.map(s).unwrap_or(J::Null)),
        ])
    }

    fn place(&self, body: &Body<'tcx>, p: &Place<'tcx>) -> J {
        let tcx = self.tcx;
        let mut proj = Vec::new();
        let mut pty = mir::PlaceTy::from_ty(body.local_decls[p.local].ty);
        for elem in p.projection.iter() {
            let j = match elem {
                PlaceElem::Deref => J::Obj(vec![("k", s("deref"))]),
                PlaceElem::Field(f, _) => {
                    let name = match pty.ty.kind() {
                        ty::Adt(adt, _) => {
                            let v = match pty.variant_index {
                                Some(v) => adt.variant(v),
                                None => {
                                    if adt.is_enum() {
                                        // should not happen without downcast
                                        adt.variant(rustc_abi::FIRST_VARIANT)
                                    } else {
                                        adt.non_enum_variant()
                                    }
                                }
                            };
                            v.fields[f].name.to_string()
                        }
                        _ => format!("{}", f.index()),
                    };
                    let mut o = vec![
                        ("k", s("field")),
                        ("name", s(name)),
                        ("idx", J::Num(f.index() as i128)),
                    ];
                    // container ADT and variant: lets the analysis re-bind renamed fields by position
                    if let ty::Adt(adt, _) = pty.ty.kind() {
                        o.push(("adt", s(self.path(adt.did()))));
                        o.push(("vidx", J::Num(pty.variant_index.map(|v| v.index()).unwrap_or(0) as i128)));
                    }
                    J::Obj(o)
                }
                PlaceElem::Index(l) => {
                    J::Obj(vec![("k", s("index")), ("local", J::Num(l.index() as i128))])
                }
                PlaceElem::ConstantIndex { offset, min_length, from_end } => J::Obj(vec![
                    ("k", s("cindex")),
                    ("offset", J::Num(offset as i128)),
                    ("min_length", J::Num(min_length as i128)),
                    ("from_end", J::Bool(from_end)),
                ]),
                PlaceElem::Subslice { from, to, from_end } => J::Obj(vec![
                    ("k", s("subslice")),
                    ("from", J::Num(from as i128)),
                    ("to", J::Num(to as i128)),
                    ("from_end", J::Bool(from_end)),
                ]),
                PlaceElem::Downcast(name, v) => {
                    let nm = match pty.ty.kind() {
                        ty::Adt(adt, _) => adt.variant(v).name.to_string(),
                        _ => name.map(|n| n.to_string()).unwrap_or_else(|| format!("{}", v.index())),
                    };
                    let mut o = vec![
                        ("k", s("downcast")),
                        ("variant", s(nm)),
                        ("vidx", J::Num(v.index() as i128)),
                    ];
                    if let ty::Adt(adt, _) = pty.ty.kind() {
                        o.push(("adt", s(self.path(adt.did()))));
                    }
                    J::Obj(o)
                }
                _ => J::Obj(vec![("k", s("other"))]),
            };
            proj.push(j);
            pty = pty.projection_ty(tcx, elem);
        }
        J::Obj(vec![
            ("local", J::Num(p.local.index() as i128)),
            ("proj", J::Arr(proj)),
            ("ty", s(self.ty(pty.ty))),
        ])
    }

    fn fn_def_info(&self, body_def: LocalDefId, t: Ty<'tcx>) -> Option<Vec<(&'static str, J)>> {
        let tcx = self.tcx;
        if let ty::FnDef(def_id, args) = t.kind() {
            let mut v = vec![
                ("fn", s(self.path(*def_id))),
                ("fn_args", s(with_no_trimmed_paths!(format!("{:?}", args)))),
                ("fn_name", s(tcx.item_name(*def_id).to_string())),
                ("fn_local", J::Bool(def_id.is_local())),
            ];
            // owning trait / impl
            if let Some(tr) = tcx.trait_of_assoc(*def_id) {
                v.push(("fn_trait", s(self.path(tr))));
                // self type = first generic arg
                if let Some(a) = args.get(0).and_then(|a| a.as_type()) {
                    v.push(("fn_self_ty", s(self.ty(a))));
                }
            } else if let Some(imp) = tcx.impl_of_assoc(*def_id) {
                let st = tcx.type_of(imp).instantiate_identity().skip_norm_wip();
                v.push(("fn_self_ty", s(self.ty(st))));
            }
            // resolution
            let env = TypingEnv::post_analysis(tcx, body_def);
            let r = std::panic::catch_unwind(std::panic::AssertUnwindSafe(|| {
                Instance::try_resolve(tcx, env, *def_id, args)
            }));
            if let Ok(Ok(Some(inst))) = r {
                let rd = inst.def_id();
                v.push(("resolved", s(self.path(rd))));
                v.push(("resolved_local", J::Bool(rd.is_local())));
            }
            Some(v)
        } else {
            None
        }
    }

    fn constant(&self, body_def: LocalDefId, c: &Const<'tcx>) -> J {
        let t = c.ty();
        let mut v: Vec<(&'static str, J)> = vec![("k", s("const")), ("ty", s(self.ty(t)))];
        if let Some(mut f) = self.fn_def_info(body_def, t) {
            v.append(&mut f);
            return J::Obj(v);
        }
        match c {
            Const::Unevaluated(u, _) => {
                v.push(("uneval", s(self.path(u.def))));
            }
            _ => {
                if t.is_integral() || t.is_bool() || t.is_char() {
                    if let Some(si) = c.try_to_scalar_int() {
                        let size = si.size();
                        let bits = si.to_bits(size);
                        let val: i128 = if t.is_signed() {
                            size.sign_extend(bits) as i128
                        } else {
                            bits as i128
                        };
                        v.push(("val", J::Num(val)));
                        v.push(("bytes", J::Num(size.bytes() as i128)));
                    }
                } else if let Some(si) = c.try_to_scalar_int() {
                    // fieldless enum constants etc.
                    let size = si.size();
                    if size.bytes() > 0 {
                        v.push(("val", J::Num(si.to_bits(size) as i128)));
                    }
                }
                v.push(("dbg", s(with_no_trimmed_paths!(format!("{}", c)))));
            }
        }
        J::Obj(v)
    }

    fn operand(&self, body: &Body<'tcx>, body_def: LocalDefId, o: &Operand<'tcx>) -> J {
        match o {
            Operand::Copy(p) => J::Obj(vec![("k", s("copy")), ("place", self.place(body, p))]),
            Operand::Move(p) => J::Obj(vec![("k", s("move")), ("place", self.place(body, p))]),
            Operand::Constant(c) => self.constant(body_def, &c.const_),
            _ => J::Obj(vec![("k", s("other"))]),
        }
    }

    fn rvalue(&self, body: &Body<'tcx>, body_def: LocalDefId, r: &Rvalue<'tcx>) -> J {
        let tcx = self.tcx;
        match r {
            Rvalue::Use(o, ..) => {
                J::Obj(vec![("k", s("use")), ("op", self.operand(body, body_def, o))])
            }
            Rvalue::Repeat(o, n) => J::Obj(vec![
                ("k", s("repeat")),
                ("op", self.operand(body, body_def, o)),
                ("n", s(format!("{}", n))),
            ]),
            Rvalue::Ref(_, bk, p) => J::Obj(vec![
                ("k", s("ref")),
                ("mutbl", J::Bool(matches!(bk, mir::BorrowKind::Mut { .. }))),
                ("fake", J::Bool(matches!(bk, mir::BorrowKind::Fake(_)))),
                ("place", self.place(body, p)),
            ]),
            Rvalue::RawPtr(k, p) => J::Obj(vec![
                ("k", s("rawptr")),
                ("mutbl", J::Bool(matches!(k, mir::RawPtrKind::Mut))),
                ("place", self.place(body, p)),
            ]),
            Rvalue::Cast(k, o, t) => J::Obj(vec![
                ("k", s("cast")),
                ("cast", s(format!("{:?}", k))),
                ("op", self.operand(body, body_def, o)),
                ("ty", s(self.ty(*t))),
            ]),
            Rvalue::BinaryOp(op, ab) => J::Obj(vec![
                ("k", s("binop")),
                ("op", s(format!("{:?}", op))),
                ("a", self.operand(body, body_def, &ab.0)),
                ("b", self.operand(body, body_def, &ab.1)),
            ]),
            Rvalue::UnaryOp(op, o) => J::Obj(vec![
                ("k", s("unop")),
                ("op", s(format!("{:?}", op))),
                ("a", self.operand(body, body_def, o)),
            ]),
            Rvalue::Discriminant(p) => {
                J::Obj(vec![("k", s("discr")), ("place", self.place(body, p))])
            }
            Rvalue::CopyForDeref(p) => J::Obj(vec![
                ("k", s("use")),
                ("op", J::Obj(vec![("k", s("copy")), ("place", self.place(body, p))])),
            ]),
            Rvalue::Aggregate(kind, ops) => {
                let mut v: Vec<(&'static str, J)> = vec![("k", s("agg"))];
                match &**kind {
                    AggregateKind::Array(_) => v.push(("agg", s("array"))),
                    AggregateKind::Tuple => v.push(("agg", s("tuple"))),
                    AggregateKind::Adt(def, vidx, _, _, active) => {
                        let adt = tcx.adt_def(*def);
                        let var = adt.variant(*vidx);
                        v.push(("agg", s("adt")));
                        v.push(("adt", s(self.path(*def))));
                        v.push(("variant", s(var.name.to_string())));
                        v.push(("vidx", J::Num(vidx.index() as i128)));
                        v.push(("is_enum", J::Bool(adt.is_enum())));
                        let names: Vec<J> = match active {
                            Some(f) => vec![s(var.fields[*f].name.to_string())],
                            None => var.fields.iter().map(|f| s(f.name.to_string())).collect(),
                        };
                        v.push(("fields", J::Arr(names)));
                    }
                    AggregateKind::Closure(def, _) => {
                        v.push(("agg", s("closure")));
                        v.push(("def", s(self.path(*def))));
                    }
                    AggregateKind::Coroutine(def, _) => {
                        v.push(("agg", s("coroutine")));
                        v.push(("def", s(self.path(*def))));
                    }
                    AggregateKind::CoroutineClosure(def, _) => {
                        v.push(("agg", s("coroutine_closure")));
                        v.push(("def", s(self.path(*def))));
                    }
                    AggregateKind::RawPtr(..) => v.push(("agg", s("rawptr"))),
                }
                v.push((
                    "ops",
                    J::Arr(ops.iter().map(|o| self.operand(body, body_def, o)).collect()),
                ));
                J::Obj(v)
            }
            Rvalue::ThreadLocalRef(d) => {
                J::Obj(vec![("k", s("tls")), ("def", s(self.path(*d)))])
            }
            _ => J::Obj(vec![("k", s("other")), ("dbg", s(format!("{:?}", r)))]),
        }
    }

    fn block(&self, body: &Body<'tcx>, body_def: LocalDefId, bb: &BasicBlockData<'tcx>) -> J {
        let mut stmts = Vec::new();
        for st in &bb.statements {
            let j = match &st.kind {
                StatementKind::Assign(b) => {
                    let (p, r) = &**b;
                    Some(J::Obj(vec![
                        ("k", s("assign")),
                        ("place", self.place(body, p)),
                        ("rv", self.rvalue(body, body_def, r)),
                        ("span", self.span(st.source_info.span)),
                    ]))
                }
                StatementKind::SetDiscriminant { place, variant_index } => Some(J::Obj(vec![
                    ("k", s("setdiscr")),
                    ("place", self.place(body, place)),
                    ("vidx", J::Num(variant_index.index() as i128)),
                    ("span", self.span(st.source_info.span)),
                ])),
                StatementKind::StorageLive(l) => Some(J::Obj(vec![
                    ("k", s("live")),
                    ("local", J::Num(l.index() as i128)),
                ])),
                StatementKind::StorageDead(l) => Some(J::Obj(vec![
                    ("k", s("dead")),
                    ("local", J::Num(l.index() as i128)),
                ])),
                _ => None,
            };
            if let Some(j) = j {
                stmts.push(j);
            }
        }
        let term = bb.terminator();
        let bbn = |b: mir::BasicBlock| J::Num(b.index() as i128);
        let unwind = |u: &mir::UnwindAction| match u {
            mir::UnwindAction::Cleanup(b) => bbn(*b),
            _ => J::Null,
        };
        let mut t: Vec<(&'static str, J)> = Vec::new();
        match &term.kind {
            TerminatorKind::Goto { target } => {
                t.push(("k", s("goto")));
                t.push(("target", bbn(*target)));
            }
            TerminatorKind::SwitchInt { discr, targets } => {
                t.push(("k", s("switch")));
                t.push(("discr", self.operand(body, body_def, discr)));
                let mut vs = Vec::new();
                for (v, b) in targets.iter() {
                    vs.push(J::Arr(vec![J::Num(v as i128), bbn(b)]));
                }
                t.push(("targets", J::Arr(vs)));
                t.push(("otherwise", bbn(targets.otherwise())));
            }
            TerminatorKind::Return => t.push(("k", s("return"))),
            TerminatorKind::Unreachable => t.push(("k", s("unreachable"))),
            TerminatorKind::UnwindResume => t.push(("k", s("resume"))),
            TerminatorKind::UnwindTerminate(_) => t.push(("k", s("terminate"))),
            TerminatorKind::Drop { place, target, unwind: u, .. } => {
                t.push(("k", s("drop")));
                t.push(("place", self.place(body, place)));
                t.push(("target", bbn(*target)));
                t.push(("unwind", unwind(u)));
            }
            TerminatorKind::Call { func, args, destination, target, unwind: u, .. } => {
                t.push(("k", s("call")));
                t.push(("func", self.operand(body, body_def, func)));
                t.push((
                    "args",
                    J::Arr(args.iter().map(|a| self.operand(body, body_def, &a.node)).collect()),
                ));
                t.push(("dest", self.place(body, destination)));
                t.push(("target", target.map(bbn).unwrap_or(J::Null)));
                t.push(("unwind", unwind(u)));
            }
            TerminatorKind::TailCall { func, args, .. } => {
                t.push(("k", s("tailcall")));
                t.push(("func", self.operand(body, body_def, func)));
                t.push((
                    "args",
                    J::Arr(args.iter().map(|a| self.operand(body, body_def, &a.node)).collect()),
                ));
            }
            TerminatorKind::Assert { cond, expected, msg, target, unwind: u } => {
                t.push(("k", s("assert")));
                t.push(("cond", self.operand(body, body_def, cond)));
                t.push(("expected", J::Bool(*expected)));
                let (kind, ops): (String, Vec<J>) = match &**msg {
                    AssertKind::BoundsCheck { len, index } => (
                        "bounds".into(),
                        vec![self.operand(body, body_def, len), self.operand(body, body_def, index)],
                    ),
                    AssertKind::Overflow(op, a, b) => (
                        format!("overflow:{:?}", op),
                        vec![self.operand(body, body_def, a), self.operand(body, body_def, b)],
                    ),
                    AssertKind::OverflowNeg(a) => {
                        ("overflow_neg".into(), vec![self.operand(body, body_def, a)])
                    }
                    AssertKind::DivisionByZero(a) => {
                        ("div_zero".into(), vec![self.operand(body, body_def, a)])
                    }
                    AssertKind::RemainderByZero(a) => {
                        ("rem_zero".into(), vec![self.operand(body, body_def, a)])
                    }
                    AssertKind::ResumedAfterReturn(_)
                    | AssertKind::ResumedAfterPanic(_)
                    | AssertKind::ResumedAfterDrop(_) => ("resumed".into(), vec![]),
                    AssertKind::MisalignedPointerDereference { .. } => ("misaligned".into(), vec![]),
                    AssertKind::NullPointerDereference => ("nullptr".into(), vec![]),
                    AssertKind::InvalidEnumConstruction(_) => ("invalid_enum".into(), vec![]),
                };
                t.push(("msg", s(kind)));
                t.push(("ops", J::Arr(ops)));
                t.push(("target", bbn(*target)));
                t.push(("unwind", unwind(u)));
            }
            TerminatorKind::Yield { value, resume, resume_arg, drop } => {
                t.push(("k", s("yield")));
                t.push(("value", self.operand(body, body_def, value)));
                t.push(("target", bbn(*resume)));
                t.push(("resume_arg", self.place(body, resume_arg)));
                t.push(("drop", drop.map(bbn).unwrap_or(J::Null)));
            }
            TerminatorKind::CoroutineDrop => t.push(("k", s("coroutine_drop"))),
            TerminatorKind::FalseEdge { real_target, imaginary_target } => {
                t.push(("k", s("false_edge")));
                t.push(("target", bbn(*real_target)));
                t.push(("imaginary", bbn(*imaginary_target)));
            }
            TerminatorKind::FalseUnwind { real_target, .. } => {
                t.push(("k", s("false_unwind")));
                t.push(("target", bbn(*real_target)));
            }
            TerminatorKind::InlineAsm { .. } => t.push(("k", s("asm"))),
        }
        t.push(("span", self.span(term.source_info.span)));
        J::Obj(vec![
            ("stmts", J::Arr(stmts)),
            ("term", J::Obj(t)),
            ("cleanup", J::Bool(bb.is_cleanup)),
        ])
    }

    fn body(&self, ldid: LocalDefId) -> Option<J> {
        let tcx = self.tcx;
        let did = ldid.to_def_id();
        let kind = tcx.def_kind(did);
        let body = stashed(tcx, ldid);
        let mut o: Vec<(&'static str, J)> = Vec::new();
        o.push(("path", s(self.path(did))));
        o.push(("kind", s(format!("{:?}", kind))));
        o.push(("name", s(tcx.opt_item_name(did).map(|n| n.to_string()).unwrap_or_default())));
        o.push(("span", self.span(tcx.def_span(did))));
        o.push(("body_span", self.span(body.span)));
        if matches!(kind, DefKind::Fn | DefKind::AssocFn) {
            o.push(("vis", s(format!("{:?}", tcx.visibility(did)))));
        }
        // parent (for closures: the enclosing fn)
        let parent = tcx.typeck_root_def_id(did);
        if parent != did {
            o.push(("root", s(self.path(parent))));
            o.push(("parent", s(self.path(tcx.parent(did)))));
        }
        if matches!(kind, DefKind::AssocFn) {
            let p = tcx.parent(did);
            match tcx.def_kind(p) {
                DefKind::Impl { of_trait } => {
                    let st = tcx.type_of(p).instantiate_identity().skip_norm_wip();
                    o.push(("impl_self_ty", s(self.ty(st))));
                    if let ty::Adt(adt, _) = st.kind() {
                        o.push(("impl_self_adt", s(self.path(adt.did()))));
                    }
                    if of_trait {
                        let tr = tcx.impl_trait_ref(p).instantiate_identity().skip_norm_wip();
                        o.push(("impl_trait", s(self.path(tr.def_id))));
                    }
                }
                DefKind::Trait => {
                    o.push(("in_trait", s(self.path(p))));
                }
                _ => {}
            }
        }
        o.push(("arg_count", J::Num(body.arg_count as i128)));
        if let Some(ck) = body.coroutine_kind() {
            o.push(("coroutine", s(format!("{:?}", ck))));
        }
        // locals
        let mut locals = Vec::new();
        for (l, d) in body.local_decls.iter_enumerated() {
            locals.push(J::Obj(vec![
                ("i", J::Num(l.index() as i128)),
                ("ty", s(self.ty(d.ty))),
                ("user", J::Bool(d.is_user_variable())),
                ("mut", J::Bool(d.mutability.is_mut())),
                ("span", self.span(d.source_info.span)),
            ]));
        }
        o.push(("locals", J::Arr(locals)));
        let mut dbg = Vec::new();
        for v in &body.var_debug_info {
            let val = match &v.value {
                mir::VarDebugInfoContents::Place(p) => self.place(&body, p),
                mir::VarDebugInfoContents::Const(c) => self.constant(ldid, &c.const_),
            };
            dbg.push(J::Obj(vec![
                ("name", s(v.name.to_string())),
                ("value", val),
                ("arg", v.argument_index.map(|a| J::Num(a as i128)).unwrap_or(J::Null)),
            ]));
        }
        o.push(("vars", J::Arr(dbg)));
        let mut blocks = Vec::new();
        for (_, bb) in body.basic_blocks.iter_enumerated() {
            blocks.push(self.block(&body, ldid, bb));
        }
        o.push(("blocks", J::Arr(blocks)));
        Some(J::Obj(o))
    }

    fn adts(&self) -> J {
        let tcx = self.tcx;
        let mut out = Vec::new();
        for id in tcx.hir_crate_items(()).definitions() {
            let did = id.to_def_id();
            match tcx.def_kind(did) {
                DefKind::Struct | DefKind::Enum | DefKind::Union => {
                    let adt = tcx.adt_def(did);
                    let mut variants = Vec::new();
                    for (vi, v) in adt.variants().iter_enumerated() {
                        let discr = if adt.is_enum() {
                            let d = adt.discriminant_for_variant(tcx, vi);
                            J::Num(d.val as i128)
                        } else {
                            J::Null
                        };
                        let fields: Vec<J> = v
                            .fields
                            .iter()
                            .map(|f| {
                                let t = tcx.type_of(f.did).instantiate_identity().skip_norm_wip();
                                J::Obj(vec![
                                    ("name", s(f.name.to_string())),
                                    ("ty", s(self.ty(t))),
                                    ("vis", s(format!("{:?}", f.vis))),
                                ])
                            })
                            .collect();
                        variants.push(J::Obj(vec![
                            ("name", s(v.name.to_string())),
                            ("vidx", J::Num(vi.index() as i128)),
                            ("discr", discr),
                            ("fields", J::Arr(fields)),
                        ]));
                    }
                    out.push(J::Obj(vec![
                        ("path", s(self.path(did))),
                        ("kind", s(format!("{:?}", tcx.def_kind(did)))),
                        ("span", self.span(tcx.def_span(did))),
                        ("repr_int", s(format!("{:?}", adt.repr().int))),
                        ("variants", J::Arr(variants)),
                    ]));
                }
                _ => {}
            }
        }
        J::Arr(out)
    }

    fn statics(&self) -> J {
        let tcx = self.tcx;
        let mut out = Vec::new();
        for id in tcx.hir_crate_items(()).definitions() {
            let did = id.to_def_id();
            if let DefKind::Static { mutability, nested, .. } = tcx.def_kind(did) {
                if nested {
                    continue;
                }
                let t = tcx.type_of(did).instantiate_identity().skip_norm_wip();
                let env = TypingEnv::post_analysis(tcx, did);
                out.push(J::Obj(vec![
                    ("path", s(self.path(did))),
                    ("mutable", J::Bool(mutability.is_mut())),
                    ("ty", s(self.ty(t))),
                    ("freeze", J::Bool(t.is_freeze(tcx, env))),
                    ("span", self.span(tcx.def_span(did))),
                ]));
            }
        }
        J::Arr(out)
    }

    fn impls(&self) -> J {
        let tcx = self.tcx;
        let mut out = Vec::new();
        for id in tcx.hir_crate_items(()).definitions() {
            let did = id.to_def_id();
            if let DefKind::Impl { of_trait } = tcx.def_kind(did) {
                let st = tcx.type_of(did).instantiate_identity().skip_norm_wip();
                let mut o = vec![("self_ty", s(self.ty(st))), ("span", self.span(tcx.def_span(did)))];
                if of_trait {
                    let tr = tcx.impl_trait_ref(did).instantiate_identity().skip_norm_wip();
                    o.push(("trait", s(self.path(tr.def_id))));
                }
                let items: Vec<J> = tcx
                    .associated_items(did)
                    .in_definition_order()
                    .map(|it| s(self.path(it.def_id)))
                    .collect();
                o.push(("items", J::Arr(items)));
                out.push(J::Obj(o));
            }
        }
        J::Arr(out)
    }
}

struct Extract;

impl Callbacks for Extract {
    fn config(&mut self, config: &mut rustc_interface::interface::Config) {
        config.override_queries = Some(|_sess, providers| {
            let _ = DEFAULT_MIR_BUILT.set(providers.queries.mir_built);
            providers.queries.mir_built = stash_mir_built;
        });
    }
    fn after_expansion<'tcx>(&mut self, _c: &Compiler, tcx: TyCtxt<'tcx>) -> Compilation {
        let out_dir = match std::env::var("CFDP_SA_OUT") {
            Ok(d) => d,
            Err(_) => return Compilation::Continue,
        };
        let krate = tcx.crate_name(rustc_hir::def_id::LOCAL_CRATE).to_string();
        if krate.starts_with("___") || krate == "build_script_build" {
            return Compilation::Continue;
        }
        let cx = Cx { tcx };
        let mut bodies = Vec::new();
        for ldid in tcx.hir_body_owners() {
            let kind = tcx.def_kind(ldid.to_def_id());
            match kind {
                DefKind::Fn | DefKind::AssocFn | DefKind::Closure => {}
                // consts / statics / anon consts: skip (their MIR evaluation may be
                // requested by type checking; reading them here is not needed)
                _ => continue,
            }
            if let Some(b) = cx.body(ldid) {
                bodies.push(b);
            }
        }
        let nonce = std::env::var("CFDP_SA_NONCE").unwrap_or_default();
        let cfg_test = tcx.sess.opts.test;
        let overflow = tcx.sess.overflow_checks();
        let root = J::Obj(vec![
            ("crate", s(krate.clone())),
            ("nonce", s(nonce)),
            ("cfg_test", J::Bool(cfg_test)),
            ("overflow_checks", J::Bool(overflow)),
            ("adts", cx.adts()),
            ("impls", cx.impls()),
            ("statics", cx.statics()),
            ("bodies", J::Arr(bodies)),
        ]);
        let mut text = String::new();
        root.write(&mut text);
        let path = format!("{}/{}.json", out_dir, krate);
        let tmp = format!("{}.tmp{}", path, std::process::id());
        std::fs::write(&tmp, text).expect("write facts");
        std::fs::rename(&tmp, &path).expect("rename facts");
        Compilation::Continue
    }
}

fn main() {
    let mut args: Vec<String> = std::env::args().collect();
    // RUSTC_WORKSPACE_WRAPPER: argv = [driver, rustc, args...]
    if args.len() > 1 && (args[1].ends_with("rustc") || args[1].contains("/rustc")) {
        args.remove(1);
    }
    let mut cb = Extract;
    rustc_driver::run_compiler(&args, &mut cb);
}
