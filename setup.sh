#!/bin/bash
# Build the fact extractor and warm the dependency cache (offline).
set -e
cd "$(dirname "$0")"
export CARGO_NET_OFFLINE=true
python3 - <<'PY'
import sys, os
sys.path.insert(0, os.path.join(os.getcwd(), "sa"))
import facts
facts.ensure_driver()
f, th = facts.extract(profile="dev")
facts.extract_fixture("controls")
print("facts", th, {k: len(v["bodies"]) for k, v in f.items()})
PY
