"""Normalisation of the extracted facts before any rule runs (identity on the pinned tree).

Rules name crate-private items by path (`RecvTransaction::finalize_receive`, the field
`self.naks`, the variant `RecvState::ReceiveData`).  A rename of such an item changes no
behaviour.  Using the pin table (`known_fns.json`, written by tools/gen_known_fns.py) this pass
re-binds, on the current tree,

  1. a function that is missing by name to the unique new function of the same impl / module with
     the same signature and a similar callee fingerprint  (rename of a private function);
  2. a struct field / enum variant whose ADT still has the same number of members with the same
     types at the same positions, but another name at some position  (rename of a field / variant);

and rewrites the facts to the pinned names.  The binding only decides *which* function or field a
rule looks at; what the rule then demands is checked on the current code, so a wrong binding can
only make a rule fail (closed), never pass.  After that, `inline.py` splices new helpers.
Everything that was re-bound or spliced is listed in the evidence."""
import copy
import json
import os
import re
from collections import Counter

from core import strip_generics

HERE = os.path.dirname(os.path.abspath(__file__))
PIN_PATH = os.path.join(HERE, "known_fns.json")
_PIN = {}


def load_pin():
    if not _PIN:
        with open(PIN_PATH) as fh:
            _PIN.update(json.load(fh))
    return _PIN


def fn_signature(b):
    n = b["arg_count"]
    return [l["ty"] for l in b["locals"][: n + 1]]


def fn_fingerprint(b):
    c = Counter()
    for blk in b["blocks"]:
        t = blk["term"]
        if t.get("k") == "call":
            fu = t.get("func") or {}
            nm = fu.get("resolved") or fu.get("fn") or "?"
            c["::".join(strip_generics(nm).split("::")[-2:])] += 1
    return dict(c)


def adt_shape(a):
    return {"kind": a["kind"], "variants": [{"name": v["name"], "fields": [[f["name"], f["ty"]] for f in v["fields"]]} for v in a["variants"]]}


def _jaccard(a, b):
    ka = Counter(a)
    kb = Counter(b)
    inter = sum((ka & kb).values())
    union = sum((ka | kb).values())
    return inter / union if union else 1.0


def _walk(o, fn):
    if isinstance(o, dict):
        fn(o)
        for v in o.values():
            _walk(v, fn)
    elif isinstance(o, list):
        for v in o:
            _walk(v, fn)


def rebind_functions(facts, pin):
    """Returns (facts', report). Renamed private functions get their pinned names back."""
    info = pin.get("fn_info") or {}
    cur = {}
    for crate, f in facts.items():
        for b in f["bodies"]:
            if b["kind"] in ("Fn", "AssocFn"):
                cur[strip_generics(b["path"])] = b
    missing = [m for m in info if m not in cur and not info[m].get("trait")]
    new = [n for n in cur if n not in info and not (cur[n].get("impl_trait") or cur[n].get("in_trait"))]
    if not missing or not new:
        return facts, []
    # callers of every current function (closures count for their root function)
    cur_callers = {}
    for crate, f in facts.items():
        for b in f["bodies"]:
            me = strip_generics(b.get("root") or b["path"]) if b["kind"] == "Closure" else strip_generics(b["path"])
            for blk in b["blocks"]:
                t = blk["term"]
                if t.get("k") == "call":
                    fu = t.get("func") or {}
                    c = fu.get("resolved") if fu.get("resolved_local") else (fu.get("fn") if fu.get("fn_local") else None)
                    if c:
                        cur_callers.setdefault(strip_generics(c), set()).add(me)
    # similarity of a pinned function m and a new function n of the same impl / module with the same
    # signature: what it calls, or who calls it (a rename usually changes one of the two pictures only -
    # when its callees were renamed too, the callers still tell)
    score = {}
    for m in missing:
        parent = m.rsplit("::", 1)[0]
        for n in new:
            if n.rsplit("::", 1)[0] != parent or fn_signature(cur[n]) != info[m]["sig"]:
                continue
            s_callees = _jaccard(info[m]["callees"], fn_fingerprint(cur[n])) if (info[m]["callees"] or fn_fingerprint(cur[n])) else 0.0
            pc = set(info[m].get("callers") or ())
            cc = cur_callers.get(n, set())
            s_callers = (len(pc & cc) / len(pc | cc)) if (pc or cc) else 0.0
            # who calls it is the stronger evidence (a helper extracted from a renamed function has the old
            # callees but not the old callers)
            score[(m, n)] = s_callers if s_callers >= 0.5 else 0.8 * s_callees
    pairs = {}
    taken = set()
    bound = set()
    while True:
        best = None
        for (m, n), sc in score.items():
            if m in bound or n in taken or sc < 0.5:
                continue
            # the best partner of each other, by a margin, among what is still free
            rival_n = max([s2 for (m2, n2), s2 in score.items() if m2 == m and n2 != n and n2 not in taken] or [0.0])
            rival_m = max([s2 for (m2, n2), s2 in score.items() if n2 == n and m2 != m and m2 not in bound] or [0.0])
            if sc - max(rival_n, rival_m) < 0.1:
                continue
            if best is None or sc > best[0]:
                best = (sc, m, n)
        if best is None:
            break
        _sc, m, n = best
        pairs[n] = m
        taken.add(n)
        bound.add(m)
    # second pass: a function that also moved (free fn -> associated fn, another impl block / module of
    # the same crate): same signature and a near-identical callee fingerprint, unique in the crate
    moved = {}
    for m in sorted(missing):
        if m in pairs.values():
            continue
        cands = []
        for n in new:
            if n in taken or n.split("::")[0] != m.split("::")[0] or n.rsplit("::", 1)[0] == m.rsplit("::", 1)[0]:
                continue  # (same impl / module: that was the first pass's decision)
            if fn_signature(cur[n]) != info[m]["sig"] or not info[m]["callees"]:
                continue
            cands.append((_jaccard(info[m]["callees"], fn_fingerprint(cur[n])), n))
        cands.sort(reverse=True)
        if cands and cands[0][0] >= 0.8 and (len(cands) == 1 or cands[1][0] < cands[0][0] - 0.2):
            moved[cands[0][1]] = m
            taken.add(cands[0][1])
    if not pairs and not moved:
        return facts, []
    facts = copy.deepcopy(facts)
    ren = {n: (n.rsplit("::", 1)[1], m.rsplit("::", 1)[1]) for n, m in pairs.items()}
    if moved:
        # whole-path replacement for moved functions (generic arguments in the path are dropped)
        def fix_moved(d):
            for key in ("fn", "resolved", "path", "root", "parent", "def"):
                v = d.get(key)
                if isinstance(v, str):
                    sg = strip_generics(v)
                    for n, m in moved.items():
                        if sg == n or sg.startswith(n + "::"):
                            d[key] = m + sg[len(n):]
                            if key == "fn" and "fn_name" in d:
                                d["fn_name"] = m.rsplit("::", 1)[1]
                            if key == "path" and d.get("kind") in ("Fn", "AssocFn"):
                                d["name"] = m.rsplit("::", 1)[1]

        for crate, fx in facts.items():
            _walk(fx["bodies"], fix_moved)

    def fix(s):
        if not isinstance(s, str):
            return s
        sg = strip_generics(s)
        for n, (newnm, oldnm) in ren.items():
            if sg == n or sg.startswith(n + "::"):
                # replace the segment following the parent path
                k = len(n.rsplit("::", 1)[0].split("::"))
                # walk segments of the generic-bearing string
                parts = _split_path(s)
                idx = [i for i, p in enumerate(parts) if not p.startswith("<")]
                # the k-th non-generic segment is the function name
                if len(idx) > k and parts[idx[k]] == newnm:
                    parts[idx[k]] = oldnm
                    return "::".join(parts)
        return s

    def f(d):
        for key in ("fn", "resolved", "path", "root", "parent", "def"):
            if key in d and isinstance(d[key], str):
                nv = fix(d[key])
                if nv != d[key]:
                    d[key] = nv
                    if key == "fn" and "fn_name" in d:
                        d["fn_name"] = strip_generics(nv).rsplit("::", 1)[1]
                    if key == "path" and "name" in d and "kind" in d and d["kind"] in ("Fn", "AssocFn"):
                        d["name"] = strip_generics(nv).rsplit("::", 1)[1]

    for crate, fx in facts.items():
        _walk(fx["bodies"], f)
        _walk(fx.get("impls"), f)
    rep = [{"renamed_function": n, "bound_to": m} for n, m in sorted(pairs.items())] + [{"moved_function": n, "bound_to": m} for n, m in sorted(moved.items())]
    return facts, rep


def _split_path(s):
    """Split a path at top-level `::` (not inside <...>)."""
    out = []
    depth = 0
    cur = ""
    i = 0
    while i < len(s):
        c = s[i]
        if c == "<":
            depth += 1
        elif c == ">":
            depth -= 1
        if depth == 0 and s.startswith("::", i):
            out.append(cur)
            cur = ""
            i += 2
            continue
        cur += c
        i += 1
    out.append(cur)
    return out


def rebind_members(facts, pin):
    """Renamed struct fields / enum variants get their pinned names back (positional, types equal)."""
    padts = pin.get("adts") or {}
    fmap = {}  # (adt path, variant idx, field idx) -> (new, old)
    vmap = {}  # (adt path, variant idx) -> (new, old)
    rep = []
    for crate, f in facts.items():
        for a in f["adts"]:
            p = strip_generics(a["path"])
            old = padts.get(p)
            if not old or old["kind"] != a["kind"] or len(old["variants"]) != len(a["variants"]):
                continue
            for vi, (ov, nv) in enumerate(zip(old["variants"], a["variants"])):
                if len(ov["fields"]) != len(nv["fields"]) or any(of[1] != nf["ty"] for of, nf in zip(ov["fields"], nv["fields"])):
                    break
            else:
                old_vnames = [v["name"] for v in old["variants"]]
                new_vnames = [v["name"] for v in a["variants"]]
                if a["kind"] == "Enum" and old_vnames != new_vnames and sorted(old_vnames) != sorted(new_vnames):
                    # same positions, same payload types, different names: renamed variants
                    for vi, (o, n) in enumerate(zip(old_vnames, new_vnames)):
                        if o != n and n not in old_vnames and o not in new_vnames:
                            vmap[(p, vi)] = (n, o)
                            rep.append({"renamed_variant": "%s::%s" % (p, n), "bound_to": o})
                for vi, (ov, nv) in enumerate(zip(old["variants"], a["variants"])):
                    onames = [x[0] for x in ov["fields"]]
                    nnames = [x["name"] for x in nv["fields"]]
                    if onames == nnames or sorted(onames) == sorted(nnames):
                        continue  # unchanged or merely reordered (names still valid)
                    for fi, (o, n) in enumerate(zip(onames, nnames)):
                        if o != n and n not in onames and o not in nnames:
                            fmap[(p, vi, fi)] = (n, o)
                            rep.append({"renamed_field": "%s.%s" % (p, n), "bound_to": o})
    if not fmap and not vmap:
        return facts, []
    facts = copy.deepcopy(facts)
    by_adt_f = {}
    for (p, vi, fi), (n, o) in fmap.items():
        by_adt_f.setdefault(p, {})[(vi, fi)] = (n, o)
    by_adt_v = {}
    for (p, vi), (n, o) in vmap.items():
        by_adt_v.setdefault(p, {})[vi] = (n, o)

    def f(d):
        # field projections carry the container ADT (driver: "adt", "vidx")
        if d.get("k") == "field" and d.get("adt"):
            m = by_adt_f.get(strip_generics(d["adt"]))
            if m:
                hit = m.get((d.get("vidx", 0), d.get("idx")))
                if hit and d.get("name") == hit[0]:
                    d["name"] = hit[1]
        if d.get("k") == "downcast" and d.get("adt"):
            m = by_adt_v.get(strip_generics(d["adt"]))
            if m and d.get("vidx") in m and d.get("variant") == m[d["vidx"]][0]:
                d["variant"] = m[d["vidx"]][1]
        if d.get("k") == "agg" and d.get("agg") == "adt" and d.get("adt"):
            p = strip_generics(d["adt"])
            vi = d.get("vidx", 0)
            m = by_adt_f.get(p)
            if m and isinstance(d.get("fields"), list):
                d["fields"] = [m[(vi, i)][1] if (vi, i) in m and nm == m[(vi, i)][0] else nm for i, nm in enumerate(d["fields"])]
            mv = by_adt_v.get(p)
            if mv and vi in mv and d.get("variant") == mv[vi][0]:
                d["variant"] = mv[vi][1]
        if d.get("k") == "switch" and d.get("discr_adt"):
            pass

    for crate, fx in facts.items():
        _walk(fx["bodies"], f)
        for a in fx["adts"]:
            p = strip_generics(a["path"])
            for vi, v in enumerate(a["variants"]):
                if p in by_adt_v and vi in by_adt_v[p] and v["name"] == by_adt_v[p][vi][0]:
                    v["name"] = by_adt_v[p][vi][1]
                for fi, fl in enumerate(v["fields"]):
                    hit = by_adt_f.get(p, {}).get((vi, fi))
                    if hit and fl["name"] == hit[0]:
                        fl["name"] = hit[1]
    return facts, rep


def rebind_types(facts, pin):
    """A struct / enum missing by name whose module has exactly one new ADT of the same shape is a
    renamed type: the new name is replaced by the pinned one in every string of the facts (paths,
    type strings), consistently for definitions and uses."""
    padts = pin.get("adts") or {}
    cur = {}
    for crate, f in facts.items():
        for a in f["adts"]:
            cur[strip_generics(a["path"])] = a
    missing = [m for m in padts if m not in cur and m.split("::")[0] in facts]
    new = [n for n in cur if n not in padts]
    if not missing or not new:
        return facts, []
    ren = {}
    for m in sorted(missing):
        mod, old_name = m.rsplit("::", 1)
        cands = []
        for n in new:
            nmod, new_name = n.rsplit("::", 1)
            if nmod != mod or new_name in ren:
                continue
            a, o = cur[n], padts[m]
            if a["kind"] != o["kind"] or len(a["variants"]) != len(o["variants"]):
                continue
            same = True
            for av, ov in zip(a["variants"], o["variants"]):
                if a["kind"] == "Enum" and av["name"] != ov["name"]:
                    same = False
                if len(av["fields"]) != len(ov["fields"]):
                    same = False
                    break
                for af, of in zip(av["fields"], ov["fields"]):
                    if af["name"] != of[0] or re.sub(r"(?<![\w])%s(?![\w])" % re.escape(new_name), old_name, af["ty"]) != of[1]:
                        same = False
            if same:
                cands.append(new_name)
        if len(cands) == 1:
            ren[cands[0]] = old_name
    if not ren:
        return facts, []
    # the new names must not collide with identifiers the pin already knows
    known_idents = set()
    for k in list(padts) + list(pin.get("functions") or []):
        known_idents.update(k.split("::"))
    ren = {n: o for n, o in ren.items() if n not in known_idents}
    if not ren:
        return facts, []
    pat = re.compile(r"(?<![\w])(%s)(?![\w])" % "|".join(re.escape(n) for n in ren))

    def fix(o):
        if isinstance(o, str):
            return pat.sub(lambda mm: ren[mm.group(1)], o) if any(n in o for n in ren) else o
        if isinstance(o, list):
            return [fix(x) for x in o]
        if isinstance(o, dict):
            return {k: fix(v) for k, v in o.items()}
        return o

    facts = {crate: fix(f) for crate, f in facts.items()}
    return facts, [{"renamed_type": n, "bound_to": o} for n, o in sorted(ren.items())]


def normalise(facts):
    """facts -> (facts', report) : re-bind renamed items, then splice new helpers."""
    from inline import inline_new_helpers

    pin = load_pin()
    report = {"rebound": [], "inlined": []}
    facts, r0 = rebind_types(facts, pin)
    facts, r1 = rebind_members(facts, pin)
    facts, r2 = rebind_functions(facts, pin)
    report["rebound"] = r0 + r1 + r2
    facts, r3 = inline_new_helpers(facts, set(pin["functions"]))
    report["inlined"] = r3
    return facts, report
