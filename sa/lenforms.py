"""Symbolic length forms (C05-L3): the number of bytes an `encode` body emits, and the
number an `encoded_len` body announces, as linear forms over atoms
   len(<place>)        run-time length of a byte vector / string field
   idw(<place>)        width of a VariableID (1,2,4,8)
   fss                 width of a file-size sensitive field (4 or 8)
   L(<Type>, <place>)  encoded length of a nested codec value (checked at its own type)
   S(<list>){<form>}   sum over the items of a list of a per-item form
Forms are compared as normalised strings."""
import re

from core import ExprBuilder, callee_name, expr_str, short, strip_generics, natural_loops, dominators, places_in, walk
from common import simp

MAXP = 400


class Form:
    def __init__(self, terms=None):
        self.t = dict(terms or {})

    @staticmethod
    def const(c):
        return Form({"1": c}) if c else Form()

    @staticmethod
    def atom(a, k=1):
        return Form({a: k})

    def add(self, o):
        r = dict(self.t)
        for a, k in o.t.items():
            r[a] = r.get(a, 0) + k
            if r[a] == 0:
                del r[a]
        return Form(r)

    def scale(self, c):
        return Form({a: k * c for a, k in self.t.items() if k * c})

    def key(self):
        parts = []
        for a in sorted(self.t):
            k = self.t[a]
            parts.append(str(k) if a == "1" else ("%s" % a if k == 1 else "%d*%s" % (k, a)))
        return " + ".join(parts) if parts else "0"

    def __repr__(self):
        return self.key()


class Unknown(Exception):
    pass


SIZES = {"u8": 1, "u16": 2, "u32": 4, "u64": 8, "u128": 16, "i8": 1, "i16": 2, "i32": 4, "i64": 8}
CODEC_TRAITS = ("PDUEncode", "FSSEncode", "SegmentEncode")


def _place_name(e):
    e = simp(e)
    if e[0] == "place":
        return e[1]
    return expr_str(e)


def _self_type_of_call(prog, e):
    """Short type name a codec method call is dispatched on."""
    nm = callee_name(e) or ""
    m = re.match(r"^cfdp_core::<(.+?) as pdu::header::(\w+)>::(\w+)$", nm)
    if m:
        return m.group(1).split("::")[-1]
    tgt = prog.by_norm.get(nm)
    if tgt is not None and tgt.impl_self_adt:
        return tgt.impl_self_adt.split("::")[-1]
    info = e[5] if len(e) > 5 else {}
    st = info.get("fn_self_ty") if isinstance(info, dict) else None
    if st:
        return strip_generics(st).split("::")[-1]
    return None


def depth_ok(self):
    return self._depth < 6


class Lengths:
    def __init__(self, prog):
        self.prog = prog
        self.cur_fn = None
        self._depth = 0

    def nested(self, ty, place):
        """Length atom of a nested codec value; a type whose encoded_len is one constant is that constant."""
        from ranges import const_returns

        for f in self.prog.by_norm.values():
            if f.name == "encoded_len" and f.kind == "AssocFn" and (f.impl_self_adt or "").split("::")[-1] == ty and f.crate == "cfdp_core":
                cr = const_returns(self.prog, f.norm)
                if cr and len(cr) == 1:
                    return Form.const(list(cr)[0])
        return Form.atom("L(%s, %s)" % (ty, place))

    def pname(self, e):
        """Name of the place a codec call is applied to, user variables resolved to their origin."""
        e = simp(e)
        if e[0] == "place" and self.cur_fn is not None and re.match(r"^\w+$", e[1]) and e[1] != "self":
            ds = ExprBuilder(self.prog, self.cur_fn).var_defs(e[1])
            if len(ds) == 1:
                d = simp(ds[0])
                if not (d[0] == "place" and d[1] == e[1]):
                    return _place_name(d)
        return _place_name(e)

    # ---------------------------------------------------------- value forms (encode side)
    def value_forms(self, e, env):
        """Possible length forms of a byte-sequence valued expression."""
        e0 = e
        if e[0] == "ref":
            return self.value_forms(e[2], env)
        if e[0] == "place":
            if e[1] in env:
                return list(env[e[1]])
            if self.cur_fn is not None and re.match(r"^\w+$", e[1]) and e[1] != "self" and depth_ok(self):
                ds = ExprBuilder(self.prog, self.cur_fn).var_defs(e[1])
                if len(ds) == 1 and not (simp(ds[0])[0] == "place" and simp(ds[0])[1] == e[1]):
                    self._depth += 1
                    try:
                        return self.value_forms(simp(ds[0]), env)
                    finally:
                        self._depth -= 1
            ty = e[2] or ""
            if "Vec<u8>" in ty or "[u8]" in ty or "str" in ty or "Utf8Path" in ty or "String" in ty:
                return [Form.atom("len(%s)" % e[1])]
            m = re.search(r"\[u8; (\d+)", ty)
            if m:
                return [Form.const(int(m.group(1)))]
            raise Unknown("place %s of type %s" % (e[1], ty))
        if e[0] == "phi":
            out = []
            for x in e[2]:
                out.extend(self.value_forms(x, env))
            return out
        if e[0] == "cast":
            return self.value_forms(e[2], env)
        if e[0] == "uneval":
            return [Form.atom("len(%s)" % e[1].split("::")[-1])]
        if e[0] == "proj":
            ty = e[3] or ""
            if re.search(r"\(Iterator>::next\(\w+\)\)@Some\.0", expr_str(e)) and ("Vec<u8>" in ty or "[u8]" in ty or "str" in ty or "Utf8Path" in ty or "String" in ty):
                # the item of a `for` loop whose pattern variable was looked through
                return [Form.atom("len(%s)" % expr_str(e))]
            raise Unknown("projection %s" % expr_str(e)[:80])
        if e[0] == "agg" and e[1] == "array":
            return [Form.const(len(e[5]))]
        if e[0] == "call":
            nm = callee_name(e) or ""
            last = nm.split("::")[-1]
            if last == "to_be_bytes" or last == "to_le_bytes":
                if nm.endswith("VariableID::to_be_bytes"):
                    return [Form.atom("idw(%s)" % self.pname(e[3][0]))]
                rt = e[4][2] if len(e[4]) > 2 else ""
                m = re.search(r"\[u8; (\d+)", rt or "")
                if m:
                    return [Form.const(int(m.group(1)))]
                raise Unknown("to_be_bytes of unknown width: %s" % rt)
            if last == "encode":
                ty = _self_type_of_call(self.prog, e)
                if ty == "VariableID":
                    return [Form.const(1).add(Form.atom("idw(%s)" % self.pname(e[3][0])))]
                if ty:
                    return [self.nested(ty, self.pname(e[3][0]))]
                raise Unknown("encode call on unknown type: %s" % nm)
            if last in ("as_bytes", "as_str", "as_slice", "to_vec", "to_owned", "clone", "into", "from", "into_bytes", "as_ref", "deref", "to_string", "into_vec", "into_boxed_slice", "as_os_str", "into_string"):
                return self.value_forms(e[3][0], env)
            if last in ("flat_map", "chain") and "iter" in nm.lower():
                return self.iter_forms(e, env)
            if last == "index" and len(e[3]) == 2:
                # `bytes[bytes.len() - k..]`: the last k octets of a value whose length is known
                rng = simp(e[3][1])
                whole = self.value_forms(simp(e[3][0]), env)
                if rng[0] == "agg" and rng[1] == "adt" and (rng[3] or rng[2]).split("::")[-1] == "RangeFrom" and len(rng[5]) == 1 and len(whole) == 1 and set(whole[0].t) <= {"1"}:
                    n_ = whole[0].t.get("1", 0)
                    st_ = simp(rng[5][0])
                    if st_[0] == "proj" and st_[1][0] == "binop" and st_[2] == ".0":
                        st_ = ("binop", st_[1][1].replace("WithOverflow", ""), st_[1][2], st_[1][3])
                    if st_[0] == "binop" and st_[1] == "Sub":
                        lhs = self.lin(simp(st_[2]), self.cur_fn) if simp(st_[2])[0] != "call" or (callee_name(simp(st_[2])) or "").split("::")[-1] != "len" else [Form.const(n_)]
                        if len(lhs) == 1 and lhs[0].key() == str(n_):
                            return self.lin(simp(st_[3]), self.cur_fn)
                raise Unknown("slice of a byte value: %s" % expr_str(e)[:80])
            if last in ("new", "with_capacity") and "Vec" in nm:
                return [Form()]
            if last == "collect" and e[3]:
                # bytes gathered from an iterator expression: once(b).chain(v).chain(..)
                return self.iter_forms(simp(e[3][0]), env)
            if last == "concat" and e[3]:
                # [a, b, ..].concat(): the pieces one after the other
                arr = simp(e[3][0])
                while arr[0] in ("cast", "ref"):
                    arr = simp(arr[2])
                if arr[0] == "agg" and arr[1] == "array":
                    out = [Form()]
                    for piece in arr[5]:
                        out = [x.add(y) for x in out for y in self.value_forms(simp(piece), env)]
                    return out
                raise Unknown("concat of %s" % expr_str(arr)[:60])
            if last == "box_assume_init_into_vec_unsafe" or last == "from_elem":
                raise Unknown("vec literal handled by the interpreter")
            tgt = self.prog.by_norm.get(nm)
            if tgt is not None and tgt.kind in ("Fn", "AssocFn") and self._depth < 4 and "Vec<u8>" in (tgt.locals[0]["ty"] or ""):
                # a local helper producing bytes from bytes: interpret its body on the argument forms
                init = {}
                for vn, l, pj in tgt.var_places:
                    if not pj and 1 <= l <= tgt.arg_count and l - 1 < len(e[3]) and re.search(r"Vec<u8>|\[u8\]", tgt.locals[l]["ty"] or ""):
                        init[vn] = self.value_forms(simp(e[3][l - 1]), env)
                sub = Lengths(self.prog)
                sub._depth = self._depth + 1
                saved = self.cur_fn
                try:
                    return sub.emit_forms(tgt, init=init)
                finally:
                    self.cur_fn = saved
            raise Unknown("call %s" % nm)
        raise Unknown("expression %s" % expr_str(e)[:80])

    def iter_forms(self, it, env):
        """Length forms of the byte sequence an iterator expression yields."""
        if it[0] == "ref":
            return self.iter_forms(it[2], env)
        if it[0] == "call":
            nm = callee_name(it) or ""
            last = nm.split("::")[-1]
            if last == "once" and "iter" in nm:
                rt = it[4][2] if len(it[4]) > 2 else ""
                if "Once<u8>" in (rt or ""):
                    return [Form.const(1)]
                raise Unknown("iter::once of a non-byte item (%s)" % rt)
            if last == "empty" and "iter" in nm:
                return [Form()]
            if last == "chain" and len(it[3]) == 2:
                return [a.add(b) for a in self.iter_forms(simp(it[3][0]), env) for b in self.iter_forms(simp(it[3][1]), env)]
            if last in ("into_iter", "iter", "copied", "cloned", "by_ref") and it[3]:
                return self.iter_forms(simp(it[3][0]), env)
            if last == "flat_map" and len(it[3]) == 2:
                # every item of the list contributes the bytes its closure yields
                clo = it[3][1]
                while clo[0] == "ref":
                    clo = clo[2]
                cl = self.prog.by_norm.get(clo[2]) if clo[0] == "agg" and clo[1] == "closure" else None
                if cl is not None and cl.arg_count >= 2:
                    saved = self.cur_fn
                    try:
                        inner = Lengths(self.prog).emit(cl)
                    finally:
                        self.cur_fn = saved
                    params = [vn for vn, l, pj in cl.var_places if not pj and 2 <= l <= cl.arg_count]
                    list_name = self._list_name(simp(it[3][0]))
                    out = []
                    for k in inner:
                        item = re.sub(r"\b(%s)\b" % "|".join(re.escape(p_) for p_ in params), "item", k) if params else k
                        out.append(Form.atom("S(%s){%s}" % (list_name, item)))
                    return out
            if last in ("map", "filter", "flat_map", "flatten", "take", "skip", "rev", "step_by", "zip", "scan"):
                raise Unknown("iterator adaptor %s in an encoder" % last)
        return self.value_forms(it, env)

    # ---------------------------------------------------------- encode interpreter
    def emit(self, fn, init=None, result=None):
        """Keys of the forms of the returned byte vector (or of the variable `result`)
        over all paths of fn. `init`: initial environment {var: [Form]}."""
        return {f.key() for f in self.emit_forms(fn, init, result)}

    def emit_forms(self, fn, init=None, result=None):
        self.cur_fn = fn
        loops = natural_loops(fn)
        envs = self._interp(fn, 0, init or {}, set(fn.live_blocks()), loops, stop=None)
        out = {}
        key = result or "_0"
        for env in envs:
            if key not in env:
                raise Unknown("returned value of %s is not a tracked byte vector" % short(fn.norm))
            for f_ in env[key]:
                if "fss" in f_.t:
                    # k octets per file-size-sensitive field: 4 or 8 (as announced() expands them)
                    k_ = f_.t["fss"]
                    rest = Form({a: c for a, c in f_.t.items() if a != "fss"})
                    for v_ in (4, 8):
                        g_ = rest.add(Form.const(k_ * v_))
                        out[g_.key()] = g_
                else:
                    out[f_.key()] = f_
        return list(out.values())

    def _interp(self, fn, start, init, region, loops, stop):
        """Forward interpretation from block `start` over `region`; returns the environments
        at `return` blocks (stop=None) or at the blocks in `stop` (after their statements)."""
        prog = self.prog
        eb = ExprBuilder(prog, fn, user_stop=True)
        ebf = ExprBuilder(prog, fn)
        err_blocks = set()
        for b, t in fn.all_calls():
            d, r, _ = prog.callee_of(t)
            if (d or "").endswith("FromResidual::from_residual"):
                err_blocks.add(b)
        heads = {h: (body, backs) for h, body, backs in loops if h in region and h != start}
        inner = set()
        for h, (body, backs) in heads.items():
            inner |= (body - {h})
        order = [b for b in self._topo(fn, start) if b in region]
        oset = set(order)
        states = {start: {self._freeze(init)}}
        finals = []

        def pname(place):
            return fn.place_str(place)

        for b in order:
            if b in inner and not any(b == h for h in heads):
                # blocks of a nested loop body are interpreted by the loop summary
                if not any(b in body and h in oset and h != start for h, (body, backs) in heads.items()):
                    pass
            for st in list(states.get(b, ())):
                env = self._thaw(st)
                blk = fn.blocks[b]
                if b in heads:
                    # summarise the loop: per-iteration growth of every tracked vector
                    body, backs = heads[b]
                    self._loop_summary(fn, b, body, backs, env, loops)
                    # continue at the loop exit(s): successors of body blocks outside the body
                    exits = set()
                    for x in body:
                        for s_, _l in fn.succs(x):
                            if s_ not in body and x not in err_blocks:
                                exits.add(s_)
                    fr = self._freeze(env)
                    for s_ in exits:
                        if s_ in oset:
                            states.setdefault(s_, set()).add(fr)
                    continue
                if any(b in body and b != h for h, (body, backs) in heads.items()):
                    continue  # inside a summarised loop
                for s in blk["stmts"]:
                    if s["k"] != "assign":
                        continue
                    dst = pname(s["place"])
                    rv = s["rv"]
                    ty = s["place"]["ty"]
                    if rv["k"] == "use" and rv["op"]["k"] in ("copy", "move"):
                        src = pname(rv["op"]["place"])
                        if src in env:
                            env[dst] = env[src]
                            continue
                    if dst in env and not s["place"]["proj"]:
                        del env[dst]
                    if rv["k"] == "agg" and rv["agg"] == "array" and "u8" in ty:
                        env[dst] = [Form.const(len(rv["ops"]))]
                t = blk["term"]
                if stop is not None and b in stop:
                    finals.append(env)
                    continue
                if b in err_blocks:
                    continue
                if t["k"] == "call":
                    self.cur_fn = fn
                    self._call(fn, eb, ebf, b, t, env)
                if t["k"] == "return":
                    if stop is None:
                        finals.append(env)
                    continue
                dkey = self._decision_key(fn, ebf, t) if t["k"] == "switch" else None
                fr = self._freeze(env)
                for s_, _lab in fn.succs(b):
                    if s_ in oset:
                        fr2 = fr
                        if dkey is not None and _lab is not None:
                            # two tests of the same immutable value on one path agree
                            env2 = self._decide(env, dkey, _lab)
                            if env2 is None:
                                continue
                            fr2 = self._freeze(env2)
                        states.setdefault(s_, set()).add(fr2)
                        if len(states[s_]) > MAXP:
                            raise Unknown("too many paths in %s" % short(fn.norm))
        return finals

    def _decision_key(self, fn, ebf, t):
        """Text of a switch discriminant that cannot change during the call: built only from immutable
        parameters (and fields of them)."""
        e = ebf.operand(t["discr"])
        ps = places_in(e)
        if not ps or any(x[0] not in ("place", "discr", "ref", "cast", "proj") for x in walk(e)):
            return None
        params = {vn for vn, l, pj in fn.var_places if not pj and 1 <= l <= fn.arg_count and not fn.locals[l]["mut"]}
        for p_ in ps:
            root = re.split(r"[.@\[]", p_)[0]
            if root not in params:
                return None
            l = [l for vn, l, pj in fn.var_places if vn == root and not pj][0]
            if (fn.locals[l]["ty"] or "").startswith("&mut"):
                return None
        return expr_str(e)

    def _decide(self, env, dkey, lab):
        cur = dict(env.get("?d", ()))
        old = cur.get(dkey)
        new = ("=", (lab[1],)) if lab[0] == "v" else ("!", tuple(lab[1]))
        if old is not None:
            if old[0] == "=" and new[0] == "=" and old[1] != new[1]:
                return None
            if old[0] == "=" and new[0] == "!" and old[1][0] in new[1]:
                return None
            if old[0] == "!" and new[0] == "=" and new[1][0] in old[1]:
                return None
            if old[0] == "=":
                new = old
            elif new[0] == "!":
                new = ("!", tuple(sorted(set(old[1]) | set(new[1]))))
        cur[dkey] = new
        env2 = dict(env)
        env2["?d"] = tuple(sorted(cur.items()))
        return env2

    def _loop_summary(self, fn, head, body, backs, env, loops):
        """A `for x in <list>` loop: add S(list){per-iteration growth} to every tracked vector
        the body appends to."""
        eb = ExprBuilder(self.prog, fn, user_stop=True)
        ebf = ExprBuilder(self.prog, fn)
        # the loop must be driven by Iterator::next on an iterator over a list
        it_expr = None
        body_entry = None
        for x in sorted(body):
            t = fn.blocks[x]["term"]
            if t["k"] == "switch":
                e = ebf.operand(t["discr"])
                if e[0] == "discr" and e[1][0] == "call" and (callee_name(e[1]) or "").split("::")[-1] == "next":
                    it_expr = e[1][3][0]
                    some = [tb for v, tb in t["targets"] if v == 1]
                    body_entry = some[0] if some else t["otherwise"]
                    break
        if it_expr is None or body_entry is None:
            raise Unknown("loop in %s is not a `for` over an iterator" % short(fn.norm))
        itn = simp(it_expr)
        if itn[0] == "place" and re.match(r"^\w+$", itn[1]):
            ds = ebf.var_defs(itn[1])
            if len(ds) == 1:
                itn = simp(ds[0])
        list_name = self._list_name(itn)
        tracked = [k for k in env.keys() if k != "?d"]
        zero = {k: [Form()] for k in tracked}
        if "?d" in env:
            zero["?d"] = env["?d"]
        inner_loops = [(h, bd, bk) for h, bd, bk in loops if h != head and h in body]
        if inner_loops:
            raise Unknown("nested loops in %s" % short(fn.norm))
        ends = self._interp(fn, body_entry, zero, set(body) - {head}, [], stop=set(backs))
        if not ends:
            raise Unknown("loop body of %s has no path back to its head" % short(fn.norm))
        items = [vn for vn, l, pj in fn.var_places if not pj and any(d[0] in ("assign", "call") and d[1] in body and "next(" in expr_str(ebf._def_expr(d, 0, (l,)))[:200] and "@Some.0" in expr_str(ebf._def_expr(d, 0, (l,))) for d in fn.defs(l))]
        for k in tracked:
            alts = {}
            for e2 in ends:
                for f_ in e2.get(k, [Form()]):
                    key = f_.key()
                    for it in items:
                        key = re.sub(r"\b%s\b" % re.escape(it), "item", key)
                    key = re.sub(r"\(Iterator>::next\(\w+\)\)@Some\.0(\.\*)?", "item", key)
                    alts[key] = True
            forms = []
            elems = self._array_elems(itn)
            if elems is not None:
                # `for x in [a, b]`: the loop is its iterations written out
                forms = [Form()]
                for el in elems:
                    forms = [f0.add(self._parse(re.sub(r"\bitem\b", el, key))) for f0 in forms for key in alts]
                if any(f_.t for f_ in forms):
                    self._add(env, k, forms)
                continue
            for key in alts:
                if key == "0":
                    forms.append(Form())
                else:
                    forms.append(Form.atom("S(%s){%s}" % (list_name, key)))
            if any(f_.t for f_ in forms):
                self._add(env, k, forms)

    def _freeze(self, env):
        return tuple(sorted((k, v if k == "?d" else tuple(sorted({tuple(sorted(f.t.items())) for f in v}))) for k, v in env.items()))

    def _thaw(self, st):
        return {k: (v if k == "?d" else [Form(dict(x)) for x in v]) for k, v in st}

    def _parse(self, key):
        f = Form()
        if key == "0":
            return f
        parts, depth, cur, i = [], 0, "", 0
        while i < len(key):
            c = key[i]
            if c in "({[":
                depth += 1
            elif c in ")}]":
                depth -= 1
            if depth == 0 and key.startswith(" + ", i):
                parts.append(cur)
                cur = ""
                i += 3
                continue
            cur += c
            i += 1
        parts.append(cur)
        for part in parts:
            m = re.match(r"^(-?\d+)\*(.+)$", part)
            if re.match(r"^-?\d+$", part):
                f = f.add(Form.const(int(part)))
            elif m:
                f = f.add(Form.atom(m.group(2), int(m.group(1))))
            else:
                f = f.add(Form.atom(part))
        return f

    def _topo(self, fn, start=0):
        seen = set()
        out = []

        def dfs(b):
            st = [(b, iter([s for s, _ in fn.succs(b)]))]
            seen.add(b)
            while st:
                x, it = st[-1]
                adv = False
                for s in it:
                    if s not in seen:
                        seen.add(s)
                        st.append((s, iter([y for y, _ in fn.succs(s)])))
                        adv = True
                        break
                if not adv:
                    out.append(x)
                    st.pop()

        dfs(start)
        return list(reversed(out))

    def _add(self, env, var, forms):
        cur = env.get(var)
        if cur is None:
            raise Unknown("append to untracked vector %s" % var)
        env[var] = [c.add(f) for c in cur for f in forms]

    def _call(self, fn, eb, ebf, b, t, env):
        prog = self.prog
        e = eb.call(b, t)
        nm = callee_name(e) or ""
        last = nm.split("::")[-1]
        dst = fn.place_str(t["dest"])
        dty = t["dest"]["ty"] or ""
        args = e[3]

        def mut_target(a):
            a = simp(a)
            return a[1] if a[0] == "place" else None

        if last == "box_assume_init_into_vec_unsafe":
            # vec![a, b, ..]: the element count is in the boxed array type
            aty = ""
            if t["args"] and t["args"][0].get("k") in ("move", "copy"):
                aty = t["args"][0]["place"]["ty"]
            m = re.search(r"\[u8; (\d+)", aty)
            if not m:
                raise Unknown("vec! literal of unknown size (%s)" % aty)
            env[dst] = [Form.const(int(m.group(1)))]
            return
        if last in ("new", "with_capacity") and nm.startswith("std::vec::Vec"):
            env[dst] = [Form()]
            return
        if last == "from_elem":
            raise Unknown("vec![x; n] in an encoder")
        if last == "extend" or last == "extend_from_slice" or last == "append":
            tgt = mut_target(args[0])
            if tgt is None:
                raise Unknown("extend on %s" % expr_str(args[0])[:60])
            raw = t["args"][1] if len(t["args"]) > 1 else {}
            rawn = fn.place_str(raw["place"]) if raw.get("k") in ("move", "copy") and not raw["place"]["proj"] else None
            if rawn is not None and rawn in env and rawn != "?d":
                # a byte vector built on this very path (the value a spliced helper returned)
                self._add(env, tgt, env[rawn])
            else:
                self._add(env, tgt, self.value_forms(simp(args[1]), env))
            return
        if last in ("push", "insert") and nm.startswith("std::vec::Vec"):
            tgt = mut_target(args[0])
            if tgt in env:
                self._add(env, tgt, [Form.const(1)])
            return
        if last == "for_each" and len(args) == 2:
            it, clo = simp(args[0]), args[1]
            if clo[0] == "agg" and clo[1] == "closure":
                self._closure_sum(fn, env, it, clo)
                return
        if last == "fold":
            raise Unknown("fold in an encoder")
        if "Vec<u8>" in dty and not t["dest"]["proj"]:
            # a byte vector produced by a call: encode(), to_vec(), clone() ...
            try:
                env[dst] = self.value_forms(simp(e), env)
            except Unknown:
                env.pop(dst, None)
                raise
            return
        if dst in env:
            del env[dst]
        # any other call that takes a tracked vector by &mut is unknown
        for a in args:
            a2 = a
            if a2[0] == "ref" and a2[1]:
                tg = mut_target(a2)
                if tg in env and last not in ("len", "is_empty", "as_slice", "as_mut_slice", "deref", "deref_mut", "truncate"):
                    raise Unknown("call %s mutates tracked vector %s" % (nm, tg))

    def _array_elems(self, it):
        """Place names of the elements of a literal array being iterated (`[&self.a, &self.b]`), else None."""
        it = simp(it)
        while it[0] == "call" and (callee_name(it) or "").split("::")[-1] in ("into_iter", "iter") and it[3]:
            it = simp(it[3][0])
        if it[0] == "agg" and it[1] == "array" and it[5] and all(simp(x)[0] == "place" for x in it[5]):
            return [_place_name(simp(x)) for x in it[5]]
        return None

    def _list_name(self, it):
        it = simp(it)
        while it[0] == "call" and (callee_name(it) or "").split("::")[-1] in ("into_iter", "iter", "iter_mut", "map", "cloned", "copied") and it[3]:
            it = simp(it[3][0])
        return _place_name(it)

    def _closure_sum(self, fn, env, it, clo):
        prog = self.prog
        cl = prog.by_norm.get(clo[2])
        if cl is None:
            raise Unknown("closure body not found")
        # captured &mut vectors: upvar names as rendered inside the closure
        caps = []
        for a in clo[5]:
            a2 = simp(a)
            if a2[0] == "place" and a2[1] in env:
                caps.append(a2[1])
        if not caps:
            raise Unknown("for_each closure captures no tracked vector")
        list_name = self._list_name(it)
        for cap in caps:
            inner = Lengths(prog).emit(cl, init={cap: [Form()]}, result=cap)
            forms = []
            for k in inner:
                item = re.sub(r"\b(%s)\b" % "|".join(re.escape(vn) for vn, l, pj in cl.var_places if not pj and 2 <= l <= cl.arg_count), "item", k) if cl.arg_count >= 2 else k
                forms.append(Form.atom("S(%s){%s}" % (list_name, item)))
            self.cur_fn = fn
            self._add(env, cap, forms)

    # ---------------------------------------------------------- encoded_len side
    def announced(self, fn):
        """Set of forms encoded_len can return."""
        eb = ExprBuilder(self.prog, fn)
        out = set()
        for d in fn.defs(0):
            if d[0] not in ("assign", "call"):
                continue
            e = simp(eb._def_expr(d, 0, (0,)))
            for f in self.lin(e, fn):
                if "fss" in f.t:
                    k = f.t["fss"]
                    rest = Form({a: c for a, c in f.t.items() if a != "fss"})
                    for v in (4, 8):
                        out.add(rest.add(Form.const(k * v)).key())
                else:
                    out.add(f.key())
        return out

    def lin(self, e, fn):
        """Alternatives (list of Form) of an integer length expression."""
        k = e[0]
        if k == "const" and isinstance(e[1], int):
            return [Form.const(e[1])]
        if k == "cast":
            return self.lin(e[2], fn)
        if k == "ref":
            return self.lin(e[2], fn)
        if k == "phi":
            if any(x[0] == "cycle" for a in e[2] for x in walk(a)):
                nm = [vn for vn, l, pj in fn.var_places if l == e[1] and not pj]
                got = self._loop_acc(nm[0], fn) if nm else None
                if got is not None:
                    return got
            out = []
            for x in e[2]:
                out.extend(self.lin(x, fn))
            return out
        if k == "proj" and e[1][0] == "binop" and e[2] == ".0":
            return self.lin(("binop", e[1][1].replace("WithOverflow", ""), e[1][2], e[1][3]), fn)
        if k == "binop":
            op = e[1].replace("WithOverflow", "")
            if op == "Add":
                return [a.add(b) for a in self.lin(e[2], fn) for b in self.lin(e[3], fn)]
            if op == "Mul":
                for x, y in ((e[2], e[3]), (e[3], e[2])):
                    xs = self.lin(x, fn)
                    if len(xs) == 1 and set(xs[0].t) <= {"1"}:
                        c = xs[0].t.get("1", 0)
                        return [f.scale(c) for f in self.lin(y, fn)]
            raise Unknown("arithmetic %s in a length" % e[1])
        if k == "call":
            nm = callee_name(e) or ""
            last = nm.split("::")[-1]
            if last == "len":
                return [Form.atom("len(%s)" % self._len_arg(e[3][0]))]
            if last == "encoded_len":
                ty = _self_type_of_call(self.prog, e)
                if ty == "VariableID":
                    return [Form.atom("idw(%s)" % _place_name(e[3][0]))]
                if ty == "FileSizeFlag":
                    return [Form.atom("fss")]
                if ty:
                    return [self.nested(ty, _place_name(e[3][0]))]
                raise Unknown("encoded_len on unknown type %s" % nm)
            if last == "fold" and len(e[3]) == 3:
                it, init, clo = e[3]
                if clo[0] == "agg" and clo[1] == "closure":
                    cl = self.prog.by_norm.get(clo[2])
                    base = self.lin(simp(init), fn)
                    per = self._fold_item(cl)
                    ln = Lengths._list_name(self, it)
                    return [b.add(Form.atom("S(%s){%s}" % (ln, p))) for b in base for p in per]
            # Option combinators: opt.map_or(d, |x| f(x)) / opt.map(|x| f(x)).unwrap_or(d)  ==  if let Some(x) = opt { f(x) } else { d }
            opt = dflt = clo = None
            if last == "map_or" and len(e[3]) == 3:
                opt, dflt, clo = e[3]
            elif last in ("unwrap_or", "unwrap_or_default") and e[3] and simp(e[3][0])[0] == "call" and (callee_name(simp(e[3][0])) or "").split("::")[-1] == "map" and len(simp(e[3][0])[3]) == 2:
                opt, clo = simp(e[3][0])[3]
                dflt = e[3][1] if last == "unwrap_or" else ("const", 0)
            if clo is not None and clo[0] == "agg" and clo[1] == "closure":
                cl = self.prog.by_norm.get(clo[2])
                if cl is not None:
                    ebc = ExprBuilder(self.prog, cl)
                    params = [vn for vn, l, pj in cl.var_places if not pj and 2 <= l <= cl.arg_count]
                    bound = _place_name(simp(opt)) + "@Some.0"
                    out = list(self.lin(simp(dflt), fn))
                    for d in cl.defs(0):
                        if d[0] not in ("assign", "call"):
                            continue
                        for f in self.lin(simp(ebc._def_expr(d, 0, (0,))), cl):
                            t = {}
                            for a, c in f.t.items():
                                for pn in params:
                                    a = re.sub(r"(?<![\w.])%s(?![\w])" % re.escape(pn), bound, a)
                                t[a] = t.get(a, 0) + c
                            out.append(Form(t))
                    return out
            if last in ("sum",):
                raise Unknown("iterator sum in a length")
            if last in ("into", "from", "try_into", "unwrap", "clone"):
                return self.lin(simp(e[3][0]), fn)
            raise Unknown("call %s in a length" % nm)
        if k == "place" and re.match(r"^[A-Za-z_]\w*$", e[1]):
            got = self._loop_acc(e[1], fn)
            if got is not None:
                return got
        raise Unknown("length expression %s" % expr_str(e)[:80])

    def _loop_acc(self, name, fn):
        """`let mut acc = c; for x in list { acc = acc + f(x); }`  ==  c + S(list){f(item)}"""
        ls = [l for vn, l, pj in fn.var_places if vn == name and not pj]
        if len(ls) != 1 or ls[0] <= fn.arg_count:
            return None
        l = ls[0]
        ebf = ExprBuilder(self.prog, fn)
        ebu = ExprBuilder(self.prog, fn, user_stop=True)
        loops = natural_loops(fn)
        outside, inside = [], {}
        for d in fn.defs(l):
            if d[0] not in ("assign", "call"):
                return None
            hs = [(len(body), h) for h, body, backs in loops if d[1] in body]
            if not hs:
                outside.append(d)
            else:
                inside.setdefault(min(hs)[1], []).append(d)
        if len(outside) != 1 or len(inside) != 1:
            return None
        head = list(inside)[0]
        body = [bd for h, bd, bk in loops if h == head][0]
        if any(h != head and h in body for h, bd, bk in loops):
            return None
        it_expr = None
        for x in sorted(body):
            t = fn.blocks[x]["term"]
            if t["k"] == "switch":
                de = ebf.operand(t["discr"])
                if de[0] == "discr" and de[1][0] == "call" and (callee_name(de[1]) or "").split("::")[-1] == "next":
                    it_expr = de[1][3][0]
                    break
        if it_expr is None:
            return None
        itn = simp(it_expr)
        if itn[0] == "place" and re.match(r"^\w+$", itn[1]):
            ds = ebf.var_defs(itn[1])
            if len(ds) == 1:
                itn = simp(ds[0])
        list_name = self._list_name(itn)
        base = self.lin(simp(ebu._def_expr(outside[0], 0, ())), fn)
        items = [vn for vn, l2, pj in fn.var_places if not pj and l2 != l and any(d[0] in ("assign", "call") and d[1] in body and "@Some.0" in expr_str(ebf._def_expr(d, 0, (l2,)))[:400] and "next(" in expr_str(ebf._def_expr(d, 0, (l2,)))[:400] for d in fn.defs(l2))]
        per = []
        for d in inside[head]:
            e2 = simp(ebu._def_expr(d, 0, ()))
            for f in self.lin_acc(e2, fn, name):
                kk = f.key()
                for it in items:
                    kk = re.sub(r"\b%s\b" % re.escape(it), "item", kk)
                kk = re.sub(r"\(Iterator>::next\(\w+\)\)@Some\.0(\.\*)?", "item", kk)
                per.append(kk)
        if not per:
            return None
        return [b.add(Form.atom("S(%s){%s}" % (list_name, p_))) for b in base for p_ in sorted(set(per))]

    def _len_arg(self, a):
        a = simp(a)
        while a[0] == "call" and (callee_name(a) or "").split("::")[-1] in ("as_str", "as_bytes", "as_slice", "as_os_str", "deref", "as_ref") and a[3]:
            a = simp(a[3][0])
        if a[0] == "uneval":
            return a[1].split("::")[-1]
        return _place_name(a)

    def _fold_item(self, cl):
        """Per-item forms of a fold closure `|acc, x| acc + f(x)` (the accumulator term removed)."""
        eb = ExprBuilder(self.prog, cl)
        acc = [vn for vn, l, pj in cl.var_places if not pj and l == 2]
        items = [vn for vn, l, pj in cl.var_places if not pj and l >= 3 and l <= cl.arg_count]
        out = []
        for d in cl.defs(0):
            if d[0] not in ("assign", "call"):
                continue
            e = simp(eb._def_expr(d, 0, (0,)))
            for f in self.lin_acc(e, cl, acc[0] if acc else "acc"):
                k = f.key()
                for it in items:
                    k = re.sub(r"\b%s\b" % re.escape(it), "item", k)
                out.append(k)
        return out

    def lin_acc(self, e, cl, acc):
        forms = self._lin_with(e, cl, acc)
        res = []
        for f in forms:
            if f.t.get("len(__acc__)", 0) != 1 and f.t.get("__acc__", 0) != 1:
                raise Unknown("fold closure does not add to its accumulator exactly once")
            t = dict(f.t)
            t.pop("__acc__", None)
            res.append(Form(t))
        return res

    def _lin_with(self, e, cl, acc):
        if e[0] == "place" and e[1] == acc:
            return [Form.atom("__acc__")]
        if e[0] == "proj" and e[1][0] == "binop" and e[2] == ".0":
            return self._lin_with(("binop", e[1][1].replace("WithOverflow", ""), e[1][2], e[1][3]), cl, acc)
        if e[0] == "binop" and e[1].replace("WithOverflow", "") == "Add":
            return [a.add(b) for a in self._lin_with(e[2], cl, acc) for b in self._lin_with(e[3], cl, acc)]
        if e[0] == "cast":
            return self._lin_with(e[2], cl, acc)
        return self.lin(e, cl)
