"""C07 (PDU assembly discipline of both entities) and C08 (NAK construction)."""
import re

from core import ExprBuilder, callee_name, expr_str, short, walk, places_in, calls_in, dominators
from df import Flow, world_str
from engine import rule, ok, bad, undecided, at, Anchor
from common import (
    RECV,
    SEND,
    impl_fns,
    impl_and_closures,
    call_sites,
    ends,
    agg_sites,
    field_writes,
    all_worlds_satisfy,
    simp,
    sstr,
)

SIDE = ((SEND, "SendTransaction", "ToReceiver"), (RECV, "RecvTransaction", "ToSender"))


def _is_call(e, suffix):
    return e[0] == "call" and (callee_name(e) or "").endswith(suffix)


def _fields(e):
    return dict(zip(e[4], e[5])) if e[0] == "agg" else {}


def _cname(e):
    """Variant name of a field-less enum constant aggregate."""
    return e[3] if e[0] == "agg" and e[1] == "adt" else None


# ================================================================ C07-S1
@rule("C07", "C07-S1", 9, "every PDU handed to the transport carries a header built by the one header builder with the length of that very payload, the side's direction and the payload's PDU type")
def c07_s1(ctx):
    n = 0
    for adt, nm, direction in SIDE:
        fns = impl_and_closures(ctx, adt)
        for f, b, j, s in agg_sites(fns, "pdu::PDU"):
            n += 1
            e = simp(ExprBuilder(ctx.prog, f).rvalue(s["rv"]))
            fl = _fields(e)
            h, p = fl.get("header"), fl.get("payload")
            key = "%s::%s:PDU" % (nm, f.name)
            problems = []
            if h is None or p is None:
                problems.append("not a PDU{header, payload} aggregate")
            elif not _is_call(h, nm + "::get_header") or len(h[3]) != 5:
                problems.append("header is %s, not the result of get_header" % expr_str(h)[:160])
            else:
                _self, d, ty, ln, seg = h[3]
                if _cname(d) != direction:
                    problems.append("direction is %s, expected Direction::%s on this side (the header cache keeps the first direction for the whole transaction)" % (expr_str(d), direction))
                if not (_is_call(ln, "PDUPayload::encoded_len") and len(ln[3]) == 2):
                    problems.append("data-field length is %s, not PDUPayload::encoded_len(payload, flag)" % expr_str(ln)[:160])
                else:
                    if expr_str(ln[3][0]) != expr_str(p):
                        problems.append("the length is computed from a different payload than the one sent: %s vs %s" % (expr_str(ln[3][0])[:120], expr_str(p)[:120]))
                    if expr_str(ln[3][1]) != "self.config.file_size_flag":
                        problems.append("the length is computed under %s, but the header announces self.config.file_size_flag" % expr_str(ln[3][1]))
                pv = p[3] if p[0] == "agg" else None
                want = {"FileData": "FileData", "Directive": "FileDirective"}.get(pv)
                if want is None:
                    problems.append("payload is not a PDUPayload variant: %s" % expr_str(p)[:120])
                elif _cname(ty) != want:
                    problems.append("PDU type %s does not match the payload variant %s" % (expr_str(ty), pv))
            if problems:
                for i, pr in enumerate(problems):
                    yield bad("C07-S1", key + (":%d" % i if i else ""), at(f, s["span"]["line"]), pr)
            else:
                yield ok("C07-S1", key, at(f, s["span"]["line"]), {"direction": direction, "payload": (p[3] if p[0] == "agg" else "?")})
        # what is given to the transport: (destination, that PDU)
        for f, b, t, d, r in call_sites(fns, lambda d_, r_: (r_ or d_).endswith("Permit::send"), ctx.prog):
            e = simp(ExprBuilder(ctx.prog, f).call(b, t))
            tup = e[3][1] if len(e[3]) > 1 else None
            key = "%s::%s:Permit::send" % (nm, f.name)
            if tup is None or tup[0] != "agg" or len(tup[5]) != 2:
                yield undecided("C07-S1", key, at(f, t["span"]["line"]), "transport payload is not a (destination, pdu) tuple: %s" % (expr_str(tup)[:120] if tup else "?"))
                continue
            dest, pdu = tup[5]
            dtxt = expr_str(dest)
            want_field = "destination_entity_id" if adt == SEND else "source_entity_id"
            okd = dtxt == "self.config." + want_field or (dest[0] == "proj" and dest[2] == "." + want_field and _is_call(dest[1], nm + "::get_header"))
            isp = pdu[0] == "agg" and pdu[2].endswith("pdu::PDU")
            if okd and isp:
                yield ok("C07-S1", key, at(f, t["span"]["line"]), "destination <- " + (dtxt if len(dtxt) < 60 else "header." + want_field))
            else:
                yield bad("C07-S1", key, at(f, t["span"]["line"]), "PDU addressed to %s (expected the peer: %s)" % (dtxt[:160], want_field) if not okd else "what is sent is not the assembled PDU")
    if n == 0:
        raise Anchor("C07-S1", "PDU{header, payload} aggregates")


# ================================================================ C07-S2
CONFIG_FIELDS = {
    "transmission_mode": "self.config.transmission_mode",
    "crc_flag": "self.config.crc_flag",
    "large_file_flag": "self.config.file_size_flag",
    "segment_metadata_flag": "self.config.segment_metadata_flag",
    "source_entity_id": "self.config.source_entity_id",
    "transaction_sequence_number": "self.config.sequence_number",
    "destination_entity_id": "self.config.destination_entity_id",
}
ARG_FIELDS = ("pdu_type", "direction", "pdu_data_field_length", "segmentation_control")


@rule("C07", "C07-S2", 2, "the header builder takes the identifying fields from the transaction configuration, the per-PDU fields from its arguments, and is the only writer of the header cache")
def c07_s2(ctx):
    for adt, nm, direction in SIDE:
        f = ctx.one("C07-S2", nm + "::get_header")
        argn = {vn: l for vn, l, proj in f.var_places if not proj and 1 <= l <= f.arg_count}
        eb = ExprBuilder(ctx.prog, f, user_stop=True)
        aggs = list(agg_sites([f], "PDUHeader"))
        if len(aggs) != 2:
            yield undecided("C07-S2", "%s::get_header:shape" % nm, at(f), "expected two PDUHeader constructions (cached / fresh), found %d" % len(aggs))
            continue
        for _f, b, j, s in aggs:
            e = simp(eb.rvalue(s["rv"]))
            fl = _fields(e)
            fresh = expr_str(fl.get("transmission_mode", ("other",))).startswith("self.config")
            key = "%s::get_header:%s" % (nm, "fresh" if fresh else "cached")
            problems = []
            for a in ARG_FIELDS:
                v = expr_str(fl.get(a, ("other", "?")))
                if a == "direction" and not fresh:
                    continue
                if v != a or a not in argn:
                    problems.append("%s <- %s (expected the argument `%s`)" % (a, v, a))
            if fresh:
                for k, src in CONFIG_FIELDS.items():
                    v = expr_str(fl.get(k, ("other", "?")))
                    if v != src:
                        problems.append("%s <- %s (expected %s)" % (k, v, src))
            else:
                # every other field is copied from the cached header, like-named
                cache = None
                for k in list(CONFIG_FIELDS) + ["version", "direction"]:
                    v = expr_str(fl.get(k, ("other", "?")))
                    m = re.match(r"^(\w+)\.%s$" % k, v)
                    if not m:
                        problems.append("%s <- %s (expected the cached header's %s)" % (k, v, k))
                    else:
                        cache = m.group(1)
                if cache:
                    src = [sstr(x) for x in eb.var_defs(cache)]
                    if src != ["self.header@Some.0"]:
                        problems.append("the copied header %s is %s, not the cache self.header" % (cache, src))
            if problems:
                for i, pr in enumerate(problems):
                    yield bad("C07-S2", key + (":%d" % i if i else ""), at(f, s["span"]["line"]), pr)
            else:
                yield ok("C07-S2", key, at(f, s["span"]["line"]), "fields wired to %s" % ("config + arguments" if fresh else "cache + arguments"))
        # single writer of self.header
        for g in impl_and_closures(ctx, adt):
            for _g, b, j, s, ps in field_writes([g], "self.header"):
                if g.name in ("new",):
                    continue
                key = "%s::%s:self.header=" % (nm, g.name)
                if g.norm == f.norm:
                    yield ok("C07-S2", key, at(g, s["span"]["line"]), "cache written by the builder")
                else:
                    yield bad("C07-S2", key, at(g, s["span"]["line"]), "the header cache is written outside get_header")


# ================================================================ C07-S3
@rule("C07", "C07-S3", 1, "a read at an explicit offset saves the first-pass cursor before and restores it on every successful path after", also=("C01",))
def c07_s3(ctx):
    fns = impl_fns(ctx, SEND)
    n = 0
    for f, b, t, d, r in call_sites(fns, lambda d_, r_: (r_ or d_).endswith("SendTransaction::send_file_segment") or (r_ or d_).endswith("SendTransaction::get_file_segment"), ctx.prog):
        e = simp(ExprBuilder(ctx.prog, f, user_stop=True).call(b, t))
        off = e[3][1] if len(e[3]) > 1 else None
        if off is None or not (off[0] == "agg" and off[3] == "Some"):
            continue  # cursor-relative read (None) or a pass-through of the caller's own argument
        n += 1
        key = "SendTransaction::%s:explicit-offset-read" % f.name
        eb = ExprBuilder(ctx.prog, f)
        dom = dominators(f)
        saves = []
        restores = set()
        for b2, t2 in f.all_calls():
            c = simp(eb.call(b2, t2))
            cal = callee_name(c) or ""
            if cal.endswith("Seek>::stream_position") or cal.endswith("Seek::stream_position"):
                if b2 in dom.get(b, ()):
                    saves.append(b2)
            if (cal.endswith("Seek>::seek") or cal.endswith("Seek::seek")) and len(c[3]) > 1:
                a = c[3][1]
                if a[0] == "agg" and a[3] == "Start" and a[5] and (_is_call(a[5][0], "stream_position")) and b2 in f.reachable(t["target"]):
                    restores.add(b2)
        if not saves:
            yield bad("C07-S3", key, at(f, t["span"]["line"]), "the cursor position is not saved (stream_position) before reading at an explicit offset")
            continue
        err = {x for x, tt in f.all_calls() if (ctx.prog.callee_of(tt)[0] or "").endswith("FromResidual::from_residual") or (ctx.prog.callee_of(tt)[1] or "").endswith("::from_residual")}
        reach = f.reachable(t["target"], avoid=restores | err)
        rets = [x for x in reach if f.blocks[x]["term"]["k"] == "return"]
        if rets or not restores:
            yield bad("C07-S3", key, at(f, t["span"]["line"]), "after the explicit-offset read a successful path returns without seek(SeekFrom::Start(saved position)): the first pass would continue from the wrong place")
        else:
            yield ok("C07-S3", key, at(f, t["span"]["line"]), {"save_blocks": saves, "restore_blocks": sorted(restores)})
    if n == 0:
        raise Anchor("C07-S3", "explicit-offset call of the segment reader")


# ================================================================ C07-S4
@rule("C07", "C07-S4", 1, "the segment reader seeks to the offset it reports, reads at most `length` bytes (take) and returns the bytes read; defaults are the cursor and the configured segment size", also=("C01",))
def c07_s4(ctx):
    f = ctx.one("C07-S4", "SendTransaction::get_file_segment")
    eb = ExprBuilder(ctx.prog, f)
    args = [vn for vn, l, proj in sorted(f.var_places, key=lambda x: x[1]) if not proj and 1 <= l <= f.arg_count]
    problems = []
    seek = rd = None
    for b, t in f.all_calls():
        c = simp(eb.call(b, t))
        cal = callee_name(c) or ""
        if cal.endswith("Seek>::seek") or cal.endswith("Seek::seek"):
            seek = c
        if cal.endswith("read_to_end") or cal.endswith("read_exact") or cal.endswith("Read::read"):
            rd = c
    ret = None
    for d in f.defs(0):
        if d[0] == "assign" and d[3]["k"] == "agg" and d[3].get("variant") == "Ok":
            ret = simp(eb.rvalue(d[3]))
    if not (seek and rd and ret):
        raise Anchor("C07-S4", "seek / read / Ok(..) in get_file_segment")
    st = seek[3][1]
    off = st[5][0] if st[0] == "agg" and st[3] == "Start" and st[5] else None
    offs = expr_str(off) if off else "?"
    m = re.match(r"^Option::unwrap_or\((\w+), Seek>::stream_position\(SendTransaction::get_handle\(self\)\)\)$", offs)
    if not m or m.group(1) not in args:
        problems.append("seek target is %s, not offset.unwrap_or(current cursor)" % offs[:160])
    src = rd[3][0]
    if not (_is_call(src, "Read::take") and len(src[3]) == 2):
        problems.append("the read is not bounded by take(length): %s" % expr_str(rd)[:160])
    else:
        lim = expr_str(src[3][1])
        m2 = re.match(r"^\(Option::unwrap_or\((\w+), self\.config\.file_size_segment\) as u64\)$", lim)
        if not m2 or m2.group(1) not in args:
            problems.append("the read bound is %s, not length.unwrap_or(config.file_size_segment)" % lim[:160])
        if expr_str(src[3][0]) != "SendTransaction::get_handle(self)":
            problems.append("the read source is %s, not the transaction's file handle" % expr_str(src[3][0])[:120])
    tup = ret[5][0] if ret[5] else None
    if not (tup and tup[0] == "agg" and len(tup[5]) == 2):
        problems.append("return value is not Ok((offset, data))")
    else:
        if expr_str(tup[5][0]) != offs:
            problems.append("the offset reported (%s) is not the offset read at (%s)" % (expr_str(tup[5][0])[:100], offs[:100]))
        buf = expr_str(rd[3][1])
        dat = expr_str(tup[5][1])
        ebu = ExprBuilder(ctx.prog, f, user_stop=True)
        chain = {dat}
        for _ in range(3):
            for v in list(chain):
                if re.match(r"^\w+$", v):
                    chain |= {sstr(x) for x in ebu.var_defs(v)}
        if buf not in chain:
            problems.append("the data returned (%s) is not the buffer filled by the read (%s)" % (dat, buf))
    if problems:
        for i, p in enumerate(problems):
            yield bad("C07-S4", "get_file_segment:%d" % i, at(f), p)
    else:
        yield ok("C07-S4", "get_file_segment", at(f), {"seek": offs[:120], "read": expr_str(rd)[:200]})


# ================================================================ C07-S5
def _like_named(e, prefix, names):
    """For an aggregate e: problems for fields in `names` whose operand is not prefix.<name>."""
    fl = _fields(e)
    out = []
    for n in names:
        v = expr_str(fl.get(n, ("other", "?")))
        if v != prefix + n:
            out.append("%s <- %s (expected %s%s)" % (n, v[:120], prefix, n))
    return out


@rule("C07", "C07-S5", 6, "metadata, EOF and file-data fields are wired to the like-named sources; the EOF checksum is the file checksum of the very file the segments are read from", also=("C13",))
def c07_s5(ctx):
    sfns = impl_and_closures(ctx, SEND)
    rfns = impl_and_closures(ctx, RECV)
    n = 0
    # MetadataPDU built by the sender
    for f, b, j, s in agg_sites(sfns, "MetadataPDU"):
        n += 1
        e = simp(ExprBuilder(ctx.prog, f).rvalue(s["rv"]))
        pr = _like_named(e, "self.metadata.", ("closure_requested", "checksum_type", "file_size", "source_filename", "destination_filename"))
        opts = expr_str(_fields(e).get("options", ("other", "?")))
        if "self.metadata.filestore_requests" not in opts or "self.metadata.message_to_user" not in opts:
            pr.append("options do not carry both the filestore requests and the messages to user: %s" % opts[:200])
        key = "SendTransaction::%s:MetadataPDU" % f.name
        if pr:
            for i, p in enumerate(pr):
                yield bad("C07-S5", key + (":%d" % i if i else ""), at(f, s["span"]["line"]), p)
        else:
            yield ok("C07-S5", key, at(f, s["span"]["line"]), "like-named fields of self.metadata")
    # EndOfFile built by the sender
    for f, b, j, s in agg_sites(sfns, "EndOfFile"):
        n += 1
        e = simp(ExprBuilder(ctx.prog, f).rvalue(s["rv"]))
        fl = _fields(e)
        pr = []
        if expr_str(fl.get("condition", ("other",))) != "self.condition":
            pr.append("condition <- %s" % expr_str(fl.get("condition", ("other",))))
        if expr_str(fl.get("file_size", ("other",))) != "self.metadata.file_size":
            pr.append("file_size <- %s (expected self.metadata.file_size)" % expr_str(fl.get("file_size", ("other",))))
        if expr_str(fl.get("checksum", ("other",))) not in ("SendTransaction::get_checksum(self)", "(SendTransaction::get_checksum(self))@Ok.0"):
            pr.append("checksum <- %s (expected get_checksum())" % expr_str(fl.get("checksum", ("other",)))[:120])
        key = "SendTransaction::%s:EndOfFile" % f.name
        if pr:
            for i, p in enumerate(pr):
                yield bad("C07-S5", key + (":%d" % i if i else ""), at(f, s["span"]["line"]), p)
        else:
            yield ok("C07-S5", key, at(f, s["span"]["line"]), "condition/checksum/file_size wired")
    # get_checksum: FileChecksum::checksum(get_handle(), metadata.checksum_type), cached in self.checksum only
    g = ctx.one("C07-S5", "SendTransaction::get_checksum")
    ebg = ExprBuilder(ctx.prog, g)
    cs = [simp(ebg.call(b, t)) for b, t in g.all_calls()]
    ck = [c for c in cs if _is_call(c, "FileChecksum>::checksum") or _is_call(c, "FileChecksum::checksum")]
    n += 1
    if ck and all(expr_str(c[3][0]) == "SendTransaction::get_handle(self)" and expr_str(c[3][1]) == "self.metadata.checksum_type" for c in ck):
        yield ok("C07-S5", "SendTransaction::get_checksum:source", at(g), "checksum(get_handle(), metadata.checksum_type)")
    else:
        yield bad("C07-S5", "SendTransaction::get_checksum:source", at(g), "the EOF checksum is not FileChecksum::checksum(the transaction's file handle, metadata.checksum_type): %s" % [expr_str(c)[:100] for c in ck])
    # every Ok(..) returned is the cache or the value just computed by checksum()/0 for no-file
    ebu = ExprBuilder(ctx.prog, g, user_stop=True)
    for _g, b, j, s, ps in field_writes(impl_and_closures(ctx, SEND), "self.checksum"):
        if _g.name == "new":
            continue
        key = "SendTransaction::%s:self.checksum=" % _g.name
        if _g.norm == g.norm:
            yield ok("C07-S5", key, at(_g, s["span"]["line"]), "cache written by get_checksum")
        else:
            yield bad("C07-S5", key, at(_g, s["span"]["line"]), "the checksum cache is written outside get_checksum (the EOF would carry a value not computed from the file)")
    rets = []
    for d in g.defs(0):
        if d[0] == "assign" and d[3]["k"] == "agg" and d[3].get("variant") == "Ok":
            rets.append(sstr(ExprBuilder(ctx.prog, g).rvalue(d[3])))
    allowed = re.compile(r"^result::Result::Ok\{(self\.checksum@Some\.0|phi\((FileChecksum>::checksum\(SendTransaction::get_handle\(self\), self\.metadata\.checksum_type\) \| const\(0\)|const\(0\) \| FileChecksum>::checksum\(SendTransaction::get_handle\(self\), self\.metadata\.checksum_type\))\)|FileChecksum>::checksum\(SendTransaction::get_handle\(self\), self\.metadata\.checksum_type\))\}$")
    retu = []
    for d in g.defs(0):
        if d[0] == "assign" and d[3]["k"] == "agg" and d[3].get("variant") == "Ok":
            retu.append(sstr(ebu.rvalue(d[3])))
    okret = True
    for r in retu:
        m = re.match(r"^result::Result::Ok\{(.+)\}$", r)
        v = m.group(1) if m else r
        srcs = {v}
        for _ in range(3):
            for x in list(srcs):
                if re.match(r"^\w+$", x):
                    srcs |= {sstr(y) for y in ebu.var_defs(x)}
        srcs = {x for x in srcs if not re.match(r"^\w+$", x)}
        if not srcs <= {"self.checksum@Some.0", "const(0)", "FileChecksum>::checksum(SendTransaction::get_handle(self), checksum_type)", "FileChecksum>::checksum(SendTransaction::get_handle(self), self.metadata.checksum_type)", "FileChecksum>::checksum(_12.*, checksum_type)"} and not all(("FileChecksum>::checksum(" in x) or x in ("self.checksum@Some.0", "const(0)") for x in srcs):
            okret = False
            yield bad("C07-S5", "SendTransaction::get_checksum:return", at(g), "get_checksum can return %s" % sorted(srcs))
    if okret:
        yield ok("C07-S5", "SendTransaction::get_checksum:return", at(g), "returns the cached value, checksum(file) or 0 for a transaction without file")
    # the one opener: get_handle opens metadata.source_filename read-only
    opens = []
    for o in impl_and_closures(ctx, SEND):
        ebo = ExprBuilder(ctx.prog, o)
        for b, t in o.all_calls():
            if (ctx.prog.callee_of(t)[0] or "").endswith("FileStore::open"):
                opens.append((o, t, simp(ebo.call(b, t))))
    if not opens:
        raise Anchor("C07-S5", "FileStore::open in the sender (the source file opener)")
    for i, (o, t, e) in enumerate(opens):
        n += 1
        key = "SendTransaction:source-open" + ("#%d" % (i + 1) if i else "")
        if "self.metadata.source_filename" in expr_str(e[3][1]):
            yield ok("C07-S5", key, at(o, t["span"]["line"]), "%s opens metadata.source_filename" % o.name)
        else:
            yield bad("C07-S5", key, at(o, t["span"]["line"]), "the sender opens %s, not metadata.source_filename" % expr_str(e[3][1])[:120])
    # file data PDU: (offset, data) of one get_file_segment call
    for f, b, j, s in agg_sites(sfns, "UnsegmentedFileData"):
        n += 1
        e = simp(ExprBuilder(ctx.prog, f).rvalue(s["rv"]))
        fl = _fields(e)
        o_, d_ = fl.get("offset"), fl.get("file_data")
        key = "SendTransaction::%s:UnsegmentedFileData" % f.name
        if o_ and d_ and o_[0] == "proj" and d_[0] == "proj" and o_[2] == ".0" and d_[2] == ".1" and expr_str(o_[1]) == expr_str(d_[1]) and _is_call(o_[1], "SendTransaction::get_file_segment"):
            yield ok("C07-S5", key, at(f, s["span"]["line"]), "offset/data of the same get_file_segment result")
        else:
            yield bad("C07-S5", key, at(f, s["span"]["line"]), "file data PDU built from offset %s and data %s, not the (offset, data) pair of one segment read" % (expr_str(o_)[:100] if o_ else "?", expr_str(d_)[:100] if d_ else "?"))
    # receiver: Metadata stored from the PDU's like-named fields
    for f, b, j, s in agg_sites(rfns, "transaction::Metadata"):
        n += 1
        eb = ExprBuilder(ctx.prog, f, user_stop=True)
        e = simp(eb.rvalue(s["rv"]))
        fl = _fields(e)
        pr = []
        srcvar = None
        for k in ("file_size", "checksum_type", "closure_requested"):
            v = expr_str(fl.get(k, ("other", "?")))
            m = re.match(r"^(\w+)\.%s$" % k, v)
            if not m:
                pr.append("%s <- %s" % (k, v[:100]))
            else:
                srcvar = m.group(1)
        for k in ("source_filename", "destination_filename"):
            v = expr_str(fl.get(k, ("other", "?")))
            srcs = {v} | ({sstr(x) for x in eb.var_defs(v)} if re.match(r"^\w+$", v) else set())
            if not any(x.endswith("." + k) for x in srcs):
                pr.append("%s <- %s" % (k, sorted(srcs)))
        if srcvar:
            sv = [sstr(x) for x in eb.var_defs(srcvar)]
            if not sv or not all("@Metadata.0" in x for x in sv):
                pr.append("the source %s is %s, not the received Metadata PDU" % (srcvar, sv))
        key = "RecvTransaction::%s:Metadata" % f.name
        cnt = sum(1 for _ in ())
        if pr:
            for i, p in enumerate(pr):
                yield bad("C07-S5", key + ":%d@L%d" % (i, 0), at(f, s["span"]["line"]), p)
        else:
            yield ok("C07-S5", key + ("#%d" % n), at(f, s["span"]["line"]), "like-named fields of the received Metadata PDU")
    if n < 5:
        raise Anchor("C07-S5", "wiring sites (found %d)" % n)


# ================================================================ C08
def _is_gaps_source(ctx, x):
    """x yields the pairs of Segments::gaps(..): `gaps(..).into_iter()`, or `<windows>.flat_map(|w| gaps(w..))`."""
    x = simp(x)
    if re.match(r"^IntoIterator>::into_iter\(Segments::gaps\(", sstr(x)):
        return True
    if x[0] == "call" and (callee_name(x) or "").split("::")[-1] == "flat_map" and len(x[3]) == 2:
        clo = x[3][1]
        while clo[0] == "ref":
            clo = clo[2]
        c = ctx.prog.by_norm.get(clo[2]) if clo[0] == "agg" and clo[1] == "closure" else None
        if c is not None:
            ebc = ExprBuilder(ctx.prog, c)
            rets = [sstr(ebc._def_expr(d, 0, (0,))) for d in c.defs(0) if d[0] in ("assign", "call")]
            return bool(rets) and all(re.match(r"^(IntoIterator>::into_iter\()?Segments::gaps\(", r_) for r_ in rets)
    return False


@rule("C08", "C08-N1", 5, "every segment request the receiver builds is a pair produced by the gap computation, the (0,0) metadata marker under 'metadata missing', or (previous end, offset) under offset > previous end")
def c08_n1(ctx):
    fns = impl_and_closures(ctx, RECV)
    n = 0

    def track(key):
        if key[0] == "val":
            return key[1] in ("self.metadata",)
        if key[0] == "expr":
            return key[1].startswith("Gt(") or key[1].startswith("Lt(")
        return False

    cnt = {}
    for f, b, j, s in agg_sites(fns, "SegmentRequestForm"):
        n += 1
        eb = ExprBuilder(ctx.prog, f, user_stop=True)
        e = simp(eb.rvalue(s["rv"]))
        a, z = e[5]
        base = "RecvTransaction::%s:SegmentRequestForm" % (f.name if f.kind != "Closure" else short(f.root or f.norm).split("::")[-1])
        cnt[base] = cnt.get(base, 0) + 1
        key = base + ("#%d" % cnt[base] if cnt[base] > 1 else "")
        ebf = ExprBuilder(ctx.prog, f)
        def _srcs(x):
            """the value's definitions: a variable's, or - for `v.0` / `v.field` - the variable's with the projection"""
            txt = expr_str(x)
            m_ = re.match(r"^(\w+)((?:\.\w+)*)$", txt)
            if not m_:
                return {txt}
            out = set()
            for bld in (eb, ebf):
                for d_ in bld.var_defs(m_.group(1)):
                    ds_ = sstr(d_)
                    out.add(ds_ + m_.group(2) if m_.group(2) else ds_)
            return out or {txt}

        sa = _srcs(a)
        sz = _srcs(z)
        # (i) pair yielded by iterating Segments::gaps(..)
        gap_a = [x for x in sa if re.match(r"^\(Iterator>::next\((\w+)\)\)@Some\.0\.0$", x)]
        gap_z = [x for x in sz if re.match(r"^\(Iterator>::next\((\w+)\)\)@Some\.0\.1$", x)]
        if gap_a and gap_z:
            it = re.match(r"^\(Iterator>::next\((\w+)\)\)", gap_a[0]).group(1)
            it2 = re.match(r"^\(Iterator>::next\((\w+)\)\)", gap_z[0]).group(1)
            src = [sstr(x) for x in eb.var_defs(it)]
            if it == it2 and src and all(re.match(r"^IntoIterator>::into_iter\(Segments::gaps\(", x) for x in src):
                yield ok("C08-N1", key, at(f, s["span"]["line"]), "pair yielded by %s" % src[0][:120])
                continue
            yield bad("C08-N1", key, at(f, s["span"]["line"]), "request built from an iterator that is not Segments::gaps(..): %s" % src)
            continue
        # (i') built in the closure of `gaps(..).into_iter().map(|(a, b)| SegmentRequestForm{a, b})`
        if f.kind == "Closure" and f.parent in ctx.prog.by_norm:
            par = ctx.prog.by_norm[f.parent]
            ebp = ExprBuilder(ctx.prog, par)
            src = None
            src_e = None
            for pb, pt in par.all_calls():
                ce = ebp.call(pb, pt)
                if (callee_name(ce) or "").split("::")[-1] in ("map",) and len(ce[3]) == 2 and ce[3][1][0] == "agg" and ce[3][1][1] == "closure" and ce[3][1][2] == f.norm:
                    src = sstr(ce[3][0])
                    src_e = ce[3][0]
            params = [vn for vn, l, pj in f.var_places if not pj and 2 <= l <= f.arg_count]
            comps = {expr_str(a), expr_str(z)}
            pa = {sstr(x) for x in eb.var_defs(expr_str(a))} if re.match(r"^\w+$", expr_str(a)) else {expr_str(a)}
            pz = {sstr(x) for x in eb.var_defs(expr_str(z))} if re.match(r"^\w+$", expr_str(z)) else {expr_str(z)}
            is_pair = any(re.match(r"^_?\w*\.0$", x) for x in pa | {expr_str(a)}) and any(re.match(r"^_?\w*\.1$", x) for x in pz | {expr_str(z)})
            if src and (re.match(r"^IntoIterator>::into_iter\(Segments::gaps\(", src) or _is_gaps_source(ctx, src_e)) and is_pair:
                yield ok("C08-N1", key, at(f, s["span"]["line"]), "pair mapped from %s" % src[:120])
                continue
            yield bad("C08-N1", key, at(f, s["span"]["line"]), "request built in a closure that is not mapped over Segments::gaps(..): source %s, fields %s / %s" % (src, sorted(pa), sorted(pz)))
            continue
        # (ii) (prev_end, offset) under offset > prev_end
        fl = Flow(ctx.prog, ctx.mods, f, track, user_stop=True)
        worlds = fl.at_stmt(b, j)
        want = ("Gt(%s, %s)" % (expr_str(z), expr_str(a)), "Lt(%s, %s)" % (expr_str(a), expr_str(z)))
        good, w = all_worlds_satisfy(worlds, lambda dw: any(k[0] == "expr" and k[1] in want and v[0] and v[1] == frozenset([1]) for k, v in dw.items()))
        if good and worlds:
            # prev_end = end of held data before storing, offset = offset of the PDU just stored
            okp = any("Segments::end(self.saved_segments)" in x for x in sa) and any("store_file_data" in x for x in sz)
            if okp:
                yield ok("C08-N1", key, at(f, s["span"]["line"]), "(previous end, new offset) under offset > previous end")
            else:
                yield bad("C08-N1", key, at(f, s["span"]["line"]), "request (%s, %s) guarded by start < end but its ends are not (end of held data, offset of the stored segment): %s / %s" % (expr_str(a), expr_str(z), sorted(sa), sorted(sz)))
            continue
        yield bad("C08-N1", key, at(f, s["span"]["line"]), "segment request (%s, %s) is neither a computed gap nor guarded by start < end: state %s" % (expr_str(a), expr_str(z), world_str(w) if w is not None else "unreachable"))
    # (iii) the (0,0) marker: From<(u64,u64)> conversions
    conv = []
    for f in fns:
        for b, t in f.all_calls():
            d, r, _i = ctx.prog.callee_of(t)
            if (d or "").split("::")[-1] in ("into", "from") and "SegmentRequestForm" in t["dest"]["ty"]:
                conv.append((f, b, t, d, r))
    for f, b, t, d, r in conv:
        n += 1
        eb = ExprBuilder(ctx.prog, f, user_stop=True)
        e = eb.call(b, t)
        arg = sstr(e[3][0]) if e[3] else "?"
        base = "RecvTransaction::%s:SegmentRequestForm::from" % f.name
        cnt[base] = cnt.get(base, 0) + 1
        key = base + ("#%d" % cnt[base] if cnt[base] > 1 else "")
        fl = Flow(ctx.prog, ctx.mods, f, track, user_stop=True)
        worlds = fl.at_term(b)
        good, w = all_worlds_satisfy(worlds, lambda dw: dw.get(("val", "self.metadata")) == (True, frozenset(["None"])))
        if arg == "tuple{const(0), const(0)}" and good and worlds:
            yield ok("C08-N1", key, at(f, t["span"]["line"]), "(0,0) metadata marker under metadata.is_none()")
        else:
            yield bad("C08-N1", key, at(f, t["span"]["line"]), "request converted from %s %s" % (arg, "without metadata.is_none()" if arg == "tuple{const(0), const(0)}" else "(not the (0,0) marker)"))
    # (i'') `gaps(..).into_iter().map(SegmentRequestForm::from)`: the conversion of a (start, end) pair
    for f in fns:
        ebf = ExprBuilder(ctx.prog, f)
        for b, t in f.all_calls():
            ce = ebf.call(b, t)
            if ce[0] != "call" or (callee_name(ce) or "").split("::")[-1] != "map" or len(ce[3]) != 2:
                continue
            fnarg = ce[3][1]
            while fnarg[0] == "ref":
                fnarg = fnarg[2]
            txtf = expr_str(fnarg)
            if not (fnarg[0] in ("fn", "const", "uneval") and "from" in txtf and "SegmentRequestForm" in (txtf + str(t["args"][1]))):
                continue
            n += 1
            base = "RecvTransaction::%s:SegmentRequestForm::from" % f.name
            cnt[base] = cnt.get(base, 0) + 1
            key = base + ("#%d" % cnt[base] if cnt[base] > 1 else "")
            src = sstr(ce[3][0])
            conv = [g for g in ctx.prog.by_norm.values() if g.name == "from" and "SegmentRequestForm" in g.norm and "(u64, u64)" in (g.locals[1]["ty"] if len(g.locals) > 1 else "")]
            conv_ok = False
            for g in conv:
                for _g, gb, gj, gs in agg_sites([g], "SegmentRequestForm"):
                    ge = simp(ExprBuilder(ctx.prog, g).rvalue(gs["rv"]))
                    conv_ok = [expr_str(x) for x in ge[5]] == ["%s.0" % [vn for vn, l, pj in g.var_places if l == 1 and not pj][0], "%s.1" % [vn for vn, l, pj in g.var_places if l == 1 and not pj][0]]
            if re.match(r"^IntoIterator>::into_iter\(Segments::gaps\(", src) and conv_ok:
                yield ok("C08-N1", key, at(f, t["span"]["line"]), "pairs of %s converted by From<(u64, u64)> (start <- .0, end <- .1)" % src[:100])
            else:
                yield bad("C08-N1", key, at(f, t["span"]["line"]), "requests converted from %s, which is not the gap computation (or the conversion does not map (start, end) in order)" % src[:160])
    if n == 0:
        raise Anchor("C08-N1", "SegmentRequestForm constructions in the receiver")


@rule("C08", "C08-N2", 3, "a NAK PDU carries at most max_nak_num(flag, segment size) requests, taken from the front of the queue, and its scope spans exactly those requests: the smallest start and the largest end (the queue is not kept in offset order)")
def c08_n2(ctx):
    f = ctx.one("C08-N2", "RecvTransaction::send_naks")
    aggs = list(agg_sites([f], "NegativeAcknowledgmentPDU"))
    if len(aggs) != 1:
        raise Anchor("C08-N2", "single NegativeAcknowledgmentPDU aggregate in send_naks")
    _f, b, j, s = aggs[0]
    e = simp(ExprBuilder(ctx.prog, f).rvalue(s["rv"]))
    fl = _fields(e)
    reqs, s0, s1 = fl.get("segment_requests"), fl.get("start_of_scope"), fl.get("end_of_scope")
    rt = expr_str(reqs) if reqs else "?"
    m = re.match(r"^Iterator::collect\(VecDeque::drain\(self\.naks, ops::RangeTo::RangeTo\{(.+)\}\)\)$", rt)
    where = at(f, s["span"]["line"])
    if not m:
        yield bad("C08-N2", "send_naks:requests", where, "segment_requests is %s, not naks.drain(..n).collect()" % rt[:200])
    else:
        ebu = ExprBuilder(ctx.prog, f, user_stop=True)
        eu = simp(ebu.rvalue(s["rv"]))
        ru = expr_str(_fields(eu).get("segment_requests"))
        nvar = None
        for x in ebu.var_defs(ru) if re.match(r"^\w+$", ru) else []:
            mm = re.match(r"^Iterator::collect\(VecDeque::drain\(self\.naks, ops::RangeTo::RangeTo\{(\w+)\}\)\)$", sstr(x))
            if mm:
                nvar = mm.group(1)
        bound = [sstr(x) for x in ebu.var_defs(nvar)] if nvar else []
        want = r"^Ord::min\(VecDeque::len\(self\.naks\), \(NegativeAcknowledgmentPDU::max_nak_num\(self\.config\.file_size_flag, \(self\.config\.file_size_segment as u32\)\) as usize\)\)$"
        want2 = r"^Ord::min\(\(NegativeAcknowledgmentPDU::max_nak_num\(self\.config\.file_size_flag, \(self\.config\.file_size_segment as u32\)\) as usize\), VecDeque::len\(self\.naks\)\)$"
        # the same bound with intermediate lets folded in (full inlining), `cmp::min` or `Ord::min`, either order
        full = re.sub(r"\bcmp::min\(", "Ord::min(", m.group(1))
        if re.match(want, full) or re.match(want2, full):
            bound = bound or [full]
            ok_full = True
        else:
            ok_full = False
        if ok_full or (bound and all(re.match(want, x) or re.match(want2, x) for x in bound)):
            yield ok("C08-N2", "send_naks:requests", where, "drain(..min(len, max_nak_num(config.file_size_flag, config.file_size_segment)))")
        else:
            yield bad("C08-N2", "send_naks:requests", where, "the number of requests per PDU is bounded by %s, not min(queue length, max_nak_num(config.file_size_flag, config.file_size_segment))" % (bound or rt[:160]))
    ebu2 = ExprBuilder(ctx.prog, f, user_stop=True)
    eu2 = simp(ebu2.rvalue(s["rv"]))
    fu = _fields(eu2)
    reqs_var = expr_str(fu.get("segment_requests"))
    for nm, pick, fld, ext in (("start_of_scope", "first", "start_offset", "min"), ("end_of_scope", "last", "end_offset", "max")):
        key = "send_naks:%s" % nm
        v = fu.get(nm)
        alts = _value_alternatives(ctx, f, ebu2, v)
        picked = []
        other = []
        positional = []
        for a in alts:
            at_ = expr_str(a)
            if _fold_extreme(ctx, f, ebu2, a, 0 if ext == "min" else 1, fld, ext, reqs_var):
                picked.append(at_[:80])
                continue
            # the smallest start / largest end over the requests of this PDU: min / max over a map of the list
            ext_calls = [x for x in walk(a) if x[0] == "call" and (callee_name(x) or "").split("::")[-1] == ext and (callee_name(x) or "").find("Iterator") >= 0]
            if ext_calls:
                good_ext = False
                for x in ext_calls:
                    src = simp(x[3][0]) if x[3] else None
                    if src is not None and src[0] == "call" and (callee_name(src) or "").split("::")[-1] == "map" and len(src[3]) == 2:
                        it = simp(src[3][0])
                        while it[0] == "call" and (callee_name(it) or "").split("::")[-1] in ("iter", "into_iter", "deref") and it[3]:
                            it = simp(it[3][0])
                        clo = [y for y in walk(src[3][1]) if y[0] == "agg" and y[1] == "closure"]
                        body = ""
                        if clo:
                            c = ctx.prog.by_norm.get(clo[0][2])
                            if c is not None:
                                ebc = ExprBuilder(ctx.prog, c)
                                body = ",".join(sstr(ebc._def_expr(d, 0, (0,))) for d in c.defs(0) if d[0] in ("assign", "call"))
                        if expr_str(it) == reqs_var and body.endswith("." + fld):
                            good_ext = True
                if good_ext:
                    picked.append(at_[:80])
                else:
                    other.append(at_[:80])
                continue
            if re.search(r"slice::(first|last)\(|VecDeque::(front|back)\(", at_):
                positional.append(at_[:80])
                continue
            mb = re.match(r"^(\w+)((?:\.\*)?\.\w+)$", at_) if a[0] == "place" else None
            if mb:
                # a pattern binding: follow it to what it was bound to
                ds = [expr_str(simp(d)) for d in ebu2.var_defs(mb.group(1))]
                if len(ds) == 1:
                    at_ = ds[0] + mb.group(2)
            # slice::first(REQS)@Some.0.start_offset   or   Option::map(slice::first(REQS), closure returning .start_offset)
            if re.match(r"^\(slice::%s\(%s\)\)@Some\.0(\.\*)?\.%s$" % (pick, re.escape(reqs_var), fld), at_):
                picked.append(at_)
            elif a[0] == "call" and (callee_name(a) or "").split("::")[-1] in ("unwrap_or", "map_or", "unwrap_or_default", "unwrap_or_else") and re.search(r"slice::(first|last)\(", at_):
                inner = [x for x in walk(a) if x[0] == "call" and (callee_name(x) or "").endswith("slice::%s" % pick) and x[3] and expr_str(simp(x[3][0])) == reqs_var]
                clo = [x for x in walk(a) if x[0] == "agg" and x[1] == "closure"]
                body = ""
                if clo:
                    c = ctx.prog.by_norm.get(clo[0][2])
                    if c is not None:
                        ebc = ExprBuilder(ctx.prog, c)
                        body = ",".join(sstr(ebc._def_expr(d, 0, (0,))) for d in c.defs(0) if d[0] in ("assign", "call"))
                if inner and body.endswith("." + fld):
                    picked.append(at_[:80])
                else:
                    other.append(at_[:80])
            elif re.search(r"slice::(first|last)\(|\.(start|end)_offset", at_):
                other.append(at_[:80])
            # anything else (constants, end of held data) is the default for an empty request list
        if positional:
            yield bad("C08-N2", key + ":%s-request" % pick, where, "%s is taken from the %s request of the PDU (%s): the queue is not in offset order (the requests of a delayed check over the whole file follow those of an earlier gap), so a request can lie outside the announced scope" % (nm, pick, positional[0]))
        elif picked and not other:
            yield ok("C08-N2", key, where, "%s of %s over the requests sent in this PDU" % (ext, fld))
        else:
            yield bad("C08-N2", key, where, "%s is %s, not the %s request's %s of the requests sent in this PDU" % (nm, [expr_str(a)[:100] for a in alts], pick, fld))


def _fold_extreme(ctx, f, ebu, a, comp, fld, ext, reqs_var):
    """`a` is component `comp` of `acc.unwrap_or(default)` where `acc: Option<(u64, u64)>` starts as None and is, in a
    loop over the requests of this PDU, set to Some((min(acc.0, sr.start_offset), max(acc.1, sr.end_offset))) - or to
    (sr.start_offset, sr.end_offset) for the first request: the running minimum / maximum in one pass."""
    a = simp(a)
    if not (a[0] == "proj" and a[2] == ".%d" % comp):
        return False
    u = simp(a[1])
    if not (u[0] == "call" and (callee_name(u) or "").split("::")[-1] == "unwrap_or" and len(u[3]) == 2):
        return False
    accp = simp(u[3][0])
    if accp[0] != "place" or not re.match(r"^\w+$", accp[1]):
        return False
    acc = accp[1]
    defs = [simp(d) for d in ebu.var_defs(acc)]
    nones = [d for d in defs if d[0] == "agg" and d[3] == "None"]
    somes = [d for d in defs if d[0] == "agg" and d[3] == "Some" and len(d[5]) == 1]
    if len(nones) != 1 or not somes or len(nones) + len(somes) != len(defs):
        return False

    def resolve(x):
        x = simp(x)
        if x[0] == "place" and re.match(r"^\w+$", x[1]):
            ds = [simp(d) for d in ebu.var_defs(x[1])]
            if len(ds) == 1:
                return ds[0]
        return x

    def is_item_field(x):
        x = resolve(x)
        tx = expr_str(x)
        m = re.match(r"^(\w+)(\.\*)?\.%s$" % fld, tx)
        if not m:
            return False
        it = [simp(d) for d in ebu.var_defs(m.group(1))]
        if len(it) != 1:
            return False
        mi = re.match(r"^\(Iterator>::next\((?:&mut )?(\w+)\)\)@Some\.0$", expr_str(it[0]))
        if not mi:
            return False
        src = [sstr(d) for d in ebu.var_defs(mi.group(1))]
        return bool(src) and all(re.match(r"^IntoIterator>::into_iter\((slice::iter\()?%s\)?\)$" % re.escape(reqs_var), x_) for x_ in src)

    def is_acc_comp(x):
        return expr_str(resolve(x)) == "%s@Some.0.%d" % (acc, comp)

    for sm in somes:
        tups = sm[5][0]
        tups = list(tups[2]) if tups[0] == "phi" else [tups]
        for tp in tups:
            tp = simp(tp)
            if not (tp[0] == "agg" and tp[1] == "tuple" and len(tp[5]) == 2):
                return False
            c = simp(tp[5][comp])
            if is_item_field(c):
                continue
            if c[0] == "call" and (callee_name(c) or "").split("::")[-1] == ext and len(c[3]) == 2:
                x, y = c[3]
                if (is_acc_comp(x) and is_item_field(y)) or (is_acc_comp(y) and is_item_field(x)):
                    continue
            return False
    return True


def _value_alternatives(ctx, f, ebu, v, depth=0):
    """Alternatives of a value: phi branches and the definitions of user variables, flattened."""
    if v is None or depth > 4:
        return []
    v = simp(v)
    if v[0] == "phi":
        out = []
        for x in v[2]:
            out.extend(_value_alternatives(ctx, f, ebu, x, depth + 1))
        return out
    if v[0] == "place" and re.match(r"^\w+$", v[1]):
        ds = ebu.var_defs(v[1])
        if ds and not any(simp(d)[0] == "place" and simp(d)[1] == v[1] for d in ds):
            out = []
            for d in ds:
                out.extend(_value_alternatives(ctx, f, ebu, d, depth + 1))
            return out
    return [v]


@rule("C08", "C08-N4", 1, "the full NAK list asks for the gaps of [0, EOF size) - or up to the end of the data held when no EOF was received - plus the metadata marker")
def c08_n4(ctx):
    f = ctx.one("C08-N4", "RecvTransaction::get_all_naks")
    eb = ExprBuilder(ctx.prog, f)
    gaps = [simp(eb.call(b, t)) for b, t in f.all_calls() if (ctx.prog.callee_of(t)[1] or ctx.prog.callee_of(t)[0] or "").endswith("Segments::gaps")]
    if len(gaps) != 1:
        raise Anchor("C08-N4", "single Segments::gaps call in get_all_naks")
    g = gaps[0]
    a = [expr_str(x) for x in g[3]]
    END = ("Segments::end_or_0(self.saved_segments)", "Option::unwrap_or(Segments::end(self.saved_segments), const(0))", "Option::unwrap_or_default(Segments::end(self.saved_segments))")
    hi_ok = [("Option::unwrap_or(self.file_size, %s)" % e_) for e_ in END] + [("phi(self.file_size@Some.0 | %s)" % e_) for e_ in END] + [("phi(%s | self.file_size@Some.0)" % e_) for e_ in END] + [("Option::unwrap_or_else(self.file_size, closure %s)" % "")]
    if a[:2] == ["self.saved_segments", "const(0)"] and len(a) == 3 and a[2] in hi_ok:
        yield ok("C08-N4", "get_all_naks:window", at(f), "gaps(0, file_size.unwrap_or(end of held data))")
    else:
        yield bad("C08-N4", "get_all_naks:window", at(f), "the full NAK list is computed over %s, not saved_segments.gaps(0, EOF size or end of held data)" % a)
    # the value returned is the list the pushes went to
    ebu = ExprBuilder(ctx.prog, f, user_stop=True)
    rets = [sstr(ebu._def_expr(d, 0, (0,))) for d in f.defs(0) if d[0] in ("assign", "call")]
    pushes = [simp(ebu.call(b, t)) for b, t in f.all_calls() if (ctx.prog.callee_of(t)[1] or ctx.prog.callee_of(t)[0] or "").endswith("VecDeque::push_back")]
    extends = [simp(ebu.call(b, t)) for b, t in f.all_calls() if (ctx.prog.callee_of(t)[1] or ctx.prog.callee_of(t)[0] or "").split("::")[-1] == "extend"]
    ext_ok = [x for x in extends if len(rets) == 1 and expr_str(x[3][0]) == rets[0] and re.match(r"^Iterator::map\(IntoIterator>::into_iter\(Segments::gaps\(", sstr(ExprBuilder(ctx.prog, f).operand({"k": "copy", "place": {"local": 0, "proj": [], "ty": ""}})) if False else sstr(x[3][1]))]
    if len(rets) == 1 and pushes and all(expr_str(p[3][0]) == rets[0] for p in pushes) and (len(pushes) >= 2 or ext_ok):
        yield ok("C08-N4", "get_all_naks:collect", at(f), "%d pushes / %d gap-extends into the returned list" % (len(pushes), len(ext_ok)))
    else:
        yield bad("C08-N4", "get_all_naks:collect", at(f), "the gaps are not all pushed into the returned list (returns %s, pushes into %s)" % (rets, [expr_str(p[3][0]) for p in pushes]))
    # writers of self.naks: get_all_naks(), pushes of checked requests, drain
    for g2, b, j, s, ps in field_writes(impl_and_closures(ctx, RECV), "self.naks"):
        if g2.name == "new":
            continue
        e = sstr(ExprBuilder(ctx.prog, g2).rvalue(s["rv"])) if j >= 0 else sstr(ExprBuilder(ctx.prog, g2).call(b, s))
        key = "RecvTransaction::%s:self.naks=" % g2.name
        if e == "RecvTransaction::get_all_naks(self)":
            yield ok("C08-N4", key, at(g2, s["span"]["line"]), "naks = get_all_naks()")
        else:
            yield bad("C08-N4", key, at(g2, s["span"]["line"]), "the NAK queue is replaced by %s" % e[:160])


READ_ONLY = ("len", "is_empty", "iter", "front", "back", "get", "contains", "as_slices", "deref", "clone", "first", "last")


@rule("C08", "C08-N5", 3, "requests leave the receiver's NAK queue only by being sent (drain in the function that builds the NAK PDU) or by a full recomputation; requests enter it only as checked constructions; nothing else shrinks or edits it")
def c08_n5(ctx):
    fns = impl_and_closures(ctx, RECV)
    n = 0
    cnt = {}
    builds_nak = {f.norm for f, b, j, s in agg_sites(fns, "NegativeAcknowledgmentPDU")}
    for f in fns:
        eb = ExprBuilder(ctx.prog, f, inline=False)
        for b, t in f.all_calls():
            e = eb.call(b, t)
            if not e[3]:
                continue
            a0 = expr_str(e[3][0])
            if a0 not in ("&mut self.naks", "&self.naks"):
                continue
            last = (callee_name(e) or "").split("::")[-1]
            if last in READ_ONLY:
                continue
            n += 1
            fname = f.name if f.kind != "Closure" else short(f.root or f.norm).split("::")[-1]
            base = "RecvTransaction:naks.%s" % last
            cnt[base] = cnt.get(base, 0) + 1
            key = base + ("#%d" % cnt[base] if cnt[base] > 1 else "")
            why = None
            if last in ("push_back", "push_front"):
                why = "a request is added (its construction is checked by C08-N1)"
            elif last == "drain" and (f.root or f.norm) in builds_nak:
                why = "requests leave the queue by being sent in the NAK PDU built here"
            elif last == "extend":
                arg_e = simp(ExprBuilder(ctx.prog, f).call(b, t)[3][1]) if len(e[3]) > 1 else None
                arg = sstr(arg_e) if arg_e is not None else ""
                if re.match(r"^Iterator::map\(IntoIterator>::into_iter\(Segments::gaps\(", arg) or (arg_e is not None and arg_e[0] == "call" and (callee_name(arg_e) or "").split("::")[-1] == "map" and arg_e[3] and _is_gaps_source(ctx, arg_e[3][0])):
                    why = "extended with requests mapped from Segments::gaps(..) (checked by C08-N1)"
            if why:
                yield ok("C08-N5", key, at(f, t["span"]["line"]), "%s: %s" % (fname, why))
            else:
                yield bad("C08-N5", key, at(f, t["span"]["line"]), "the NAK queue is modified by %s in %s: a queued request for data still missing can be dropped or altered without having been sent" % (last, fname))
    if n == 0:
        raise Anchor("C08-N5", "mutators of RecvTransaction.naks")


@rule("C08", "C08-N6", 1, "when EOF arrives and data or metadata is still missing, a request is queued at once or a delayed check over the whole file is scheduled - on every path")
def c08_n6(ctx):
    f = ctx.one("C08-N6", "RecvTransaction::process_pdu")
    eb = ExprBuilder(ctx.prog, f)
    n = 0
    err = {x for x, tt in f.all_calls() if (ctx.prog.callee_of(tt)[0] or "").endswith("FromResidual::from_residual")}
    for b in f.live_blocks():
        t = f.blocks[b]["term"]
        if t["k"] != "switch":
            continue
        c = eb.operand(t["discr"])
        if not (c[0] == "call" and (callee_name(c) or "").endswith("RecvTransaction::has_naks")):
            continue
        n += 1
        done = set()
        region = f.reachable(t["otherwise"])
        for x in region:
            blk = f.blocks[x]
            for s in blk["stmts"]:
                if s["k"] == "assign" and f.place_str(s["place"]) == "self.naks" and sstr(eb.rvalue(s["rv"])) == "RecvTransaction::get_all_naks(self)":
                    done.add(x)
            tt = blk["term"]
            if tt["k"] == "call":
                ce = simp(eb.call(x, tt))
                cal = callee_name(ce) or ""
                if f.place_str(tt["dest"]) == "self.naks" and cal.endswith("RecvTransaction::get_all_naks"):
                    done.add(x)
                if cal.endswith("Vec::push") and expr_str(ce[3][0]) == "self.delayed_nack_timers":
                    tup = ce[3][1]
                    if tup[0] == "agg" and len(tup[5]) == 3 and expr_str(tup[5][1]) == "const(0)":
                        hi = expr_str(tup[5][2])
                        mm = re.match(r"^(\w+)\.file_size$", hi)
                        src = [expr_str(y) for y in eb.var_defs(mm.group(1))] if mm else [hi]
                        if hi.endswith(".file_size") and src and all("@EoF.0" in y for y in src):
                            done.add(x)
        r2 = f.reachable(t["otherwise"], avoid=done | err)
        rets = [x for x in r2 if f.blocks[x]["term"]["k"] == "return"]
        key = "process_pdu:eof-with-naks" + ("#%d" % n if n > 1 else "")
        if rets or not done:
            yield bad("C08-N6", key, at(f, t["span"]["line"]), "after EOF with has_naks() == true a path returns without queueing get_all_naks() or scheduling a delayed check of [0, EOF size): missing data would never be requested")
        else:
            yield ok("C08-N6", key, at(f, t["span"]["line"]), {"request_blocks": sorted(done)})
    if n == 0:
        raise Anchor("C08-N6", "has_naks() test in process_pdu")


@rule("C08", "C08-N7", 2, "the number of requests that fit one NAK PDU is computed from the PDU's own layout: (budget - fixed part of the NAK's encoded_len) / encoded_len of one request")
def c08_n7(ctx):
    from lenforms import Lengths, Unknown, Form

    f = ctx.one("C08-N7", "NegativeAcknowledgmentPDU::max_nak_num")
    L = Lengths(ctx.prog)
    eb = ExprBuilder(ctx.prog, f)
    rets = [simp(eb._def_expr(d, 0, (0,))) for d in f.defs(0) if d[0] in ("assign", "call")]
    nak_len = [g for g in ctx.prog.by_norm.values() if g.name == "encoded_len" and (g.impl_self_adt or "").endswith("NegativeAcknowledgmentPDU")]
    req_len = [g for g in ctx.prog.by_norm.values() if g.name == "encoded_len" and (g.impl_self_adt or "").endswith("SegmentRequestForm")]
    if len(rets) != 1 or len(nak_len) != 1 or len(req_len) != 1:
        raise Anchor("C08-N7", "max_nak_num / NAK encoded_len / SegmentRequestForm encoded_len")
    e = rets[0]
    budget = [vn for vn, l, pj in f.var_places if not pj and l == 2]
    try:
        if not (e[0] == "binop" and e[1] == "Div"):
            raise Unknown("max_nak_num is not a quotient: %s" % expr_str(e)[:120])
        num, den = simp(e[2]), simp(e[3])
        if num[0] == "proj" and num[1][0] == "binop":
            num = ("binop", num[1][1].replace("WithOverflow", ""), num[1][2], num[1][3])
        if num[0] == "call" and (callee_name(num) or "").split("::")[-1] in ("saturating_sub", "checked_sub", "wrapping_sub"):
            num = ("binop", "Sub", num[3][0], num[3][1])
        if not (num[0] == "binop" and num[1] == "Sub" and expr_str(simp(num[2])) in budget):
            raise Unknown("numerator is not `budget - fixed part`: %s" % expr_str(num)[:160])
        fixed = {x.key() for x in L.lin(simp(num[3]), f)}
        per = {x.key() for x in L.lin(den, f)}
        eg = ExprBuilder(ctx.prog, nak_len[0])
        nak_forms = []
        for d in nak_len[0].defs(0):
            if d[0] in ("assign", "call"):
                nak_forms.extend(L.lin(simp(eg._def_expr(d, 0, (0,))), nak_len[0]))
        nak_fixed = {Form({a: c for a, c in x.t.items() if not a.startswith("S(")}).key() for x in nak_forms}
        er = ExprBuilder(ctx.prog, req_len[0])
        req_forms = set()
        for d in req_len[0].defs(0):
            if d[0] in ("assign", "call"):
                req_forms |= {x.key() for x in L.lin(simp(er._def_expr(d, 0, (0,))), req_len[0])}
    except Unknown as u:
        yield undecided("C08-N7", "max_nak_num:shape", at(f), "not computable: %s" % u)
        return
    if fixed == nak_fixed:
        yield ok("C08-N7", "max_nak_num:fixed-part", at(f), "budget reduced by %s = fixed part of the NAK PDU" % sorted(fixed))
    else:
        yield bad("C08-N7", "max_nak_num:fixed-part", at(f), "the budget is reduced by %s but a NAK PDU's fixed part (scope) is %s: a full NAK exceeds the configured size" % (sorted(fixed), sorted(nak_fixed)))
    if per == req_forms:
        yield ok("C08-N7", "max_nak_num:per-request", at(f), "divided by %s = encoded_len of one request" % sorted(per))
    else:
        yield bad("C08-N7", "max_nak_num:per-request", at(f), "divided by %s but one request takes %s" % (sorted(per), sorted(req_forms)))


# ================================================================ C07-S6 / S7, C10-K5 / K6
@rule("C07", "C07-S6", 1, "queued retransmission requests are de-duplicated on the whole request (start and end), never on a part of it")
def c07_s6(ctx):
    fns = impl_and_closures(ctx, SEND)
    n = 0
    for f in fns:
        eb = ExprBuilder(ctx.prog, f)
        for b, t in f.all_calls():
            e = eb.call(b, t)
            cal = callee_name(e) or ""
            if not cal.endswith("VecDeque::retain") or not e[3] or "self.naks" not in expr_str(e[3][0]):
                continue
            n += 1
            clo = e[3][1] if len(e[3]) > 1 else None
            key = "SendTransaction::%s:naks.retain" % (f.name if f.kind != "Closure" else short(f.root or f.norm).split("::")[-1])
            body = None
            if clo is not None and clo[0] == "agg" and clo[1] == "closure":
                c = ctx.prog.by_norm.get(clo[2])
                if c is not None:
                    ebc = ExprBuilder(ctx.prog, c)
                    items = [vn for vn, l, pj in c.var_places if not pj and 2 <= l <= c.arg_count]
                    rets = [sstr(ebc._def_expr(d, 0, (0,))) for d in c.defs(0) if d[0] in ("assign", "call")]
                    body = rets
                    if len(rets) == 1 and items and re.match(r"^HashSet::insert\(\w+, %s\)$" % re.escape(items[0]), rets[0]):
                        yield ok("C07-S6", key, at(f, t["span"]["line"]), "retain(|e| seen.insert(e.clone())): keyed on the whole request")
                        continue
            yield bad("C07-S6", key, at(f, t["span"]["line"]), "the retransmission queue is filtered by %s, not by first occurrence of the whole (start, end) request: a request sharing only its start with another one is dropped and never answered" % body)
    if n == 0:
        yield ok("C07-S6", "SendTransaction:no-retain", "-", "the sender's queue is never filtered", nontrivial=False)


@rule("C07", "C07-S7", 1, "the first pass ends (EOF prepared) only when the file cursor has reached the file length", also=("C01",))
def c07_s7(ctx):
    f = ctx.one("C07-S7", "SendTransaction::send_pdu")

    def at_end_helper(name):
        """A local method whose (Ok) result is `stream_position(handle) == metadata(handle).len()`."""
        g = [x for x in impl_fns(ctx, SEND) if x.name == name]
        if len(g) != 1:
            return False
        ebg = ExprBuilder(ctx.prog, g[0])
        vals = []
        for d in g[0].defs(0):
            if d[0] == "assign":
                e = simp(ebg.rvalue(d[3]))
                if e[0] == "agg" and e[3] == "Ok" and e[5]:
                    e = e[5][0]
                vals.append(expr_str(e))
            elif d[0] == "call" and not (ctx.prog.callee_of(d[2])[0] or "").endswith("from_residual"):
                vals.append(sstr(ebg.call(d[1], d[2])))
        return bool(vals) and all(v.startswith("Eq(") and "Seek>::stream_position(" in v and "Metadata::len(" in v and "File::metadata(" in v for v in vals)

    def track(key):
        if key[0] == "val":
            return key[1] == "self.send_state"
        if key[0] == "expr":
            return (key[1].startswith("Eq(") and "stream_position" in key[1]) or re.search(r"SendTransaction::\w+\((&mut |&)?self\)", key[1]) is not None
        if key[0] == "call":
            return key[1].startswith("cfdp_daemon::transaction::send::SendTransaction::")
        return False

    fl = Flow(ctx.prog, ctx.mods, f, track)
    n = 0
    from common import val_in

    for f2, b, t, d, r in call_sites([f], ends("SendTransaction::prepare_eof"), ctx.prog):
        worlds = fl.at_term(b)
        # only the call made while sending data (not the no-file transaction in SendMetadata)
        data_w = [w for w in worlds if val_in(dict(w), "self.send_state", {"SendData"})]
        if not data_w:
            continue
        n += 1
        key = "SendTransaction::send_pdu:end-of-first-pass"

        def guard(dw):
            for k, (pos, s) in dw.items():
                if not (pos and s == frozenset([1])):
                    continue
                if k[0] == "expr" and k[1].startswith("Eq("):
                    if "Seek>::stream_position(" in k[1] and "Metadata::len(" in k[1] and "File::metadata(" in k[1]:
                        return True
                m = re.search(r"SendTransaction::(\w+)\(", k[1]) if k[0] in ("expr", "call") else None
                if m and at_end_helper(m.group(1)):
                    return True
            return False

        good, w = all_worlds_satisfy(frozenset(data_w), guard)
        if good:
            yield ok("C07-S7", key, at(f, t["span"]["line"]), "EOF prepared under stream_position() == metadata().len()")
        else:
            yield bad("C07-S7", key, at(f, t["span"]["line"]), "in the SendData phase the EOF is prepared without the test `cursor == file length` on the path (state %s): a retransmission read near the end of the file can end the first pass early" % (world_str(w) if w is not None else "?"))
    if n == 0:
        raise Anchor("C07-S7", "prepare_eof call in the SendData arm of send_pdu")


@rule("C10", "C10-K5", 1, "every successful return of the sender's prepare_eof has stored a fresh EOF built from the current condition and marked to be sent", also=("C07",))
def c10_k5(ctx):
    f = ctx.one("C10-K5", "SendTransaction::prepare_eof")
    eb = ExprBuilder(ctx.prog, f)
    stores = set()
    for _f, b, j, s, ps in field_writes([f], "self.eof"):
        if j < 0 or ps != "self.eof":
            continue
        e = simp(eb.rvalue(s["rv"]))
        txt = expr_str(e)
        if re.match(r"^option::Option::Some\{tuple\{pdu::EndOfFile::EndOfFile\{self\.condition, .*\}, const\(1\)\}\}$", txt):
            stores.add(b)
    err = {x for x, tt in f.all_calls() if (ctx.prog.callee_of(tt)[0] or "").endswith("FromResidual::from_residual")}
    # (`Err(e) => return Err(e)` written out)
    err |= {x for x in f.live_blocks() if any(s2["k"] == "assign" and s2["place"]["local"] == 0 and not s2["place"]["proj"] and s2["rv"]["k"] == "agg" and s2["rv"].get("variant") == "Err" for s2 in f.blocks[x]["stmts"])}
    reach = f.reachable(0, avoid=stores | err)
    rets = [x for x in reach if f.blocks[x]["term"]["k"] == "return"]
    if stores and not rets:
        yield ok("C10-K5", "SendTransaction::prepare_eof", at(f), "every Ok path stores Some((EndOfFile{condition: self.condition, ..}, true))")
    else:
        yield bad("C10-K5", "SendTransaction::prepare_eof", at(f), "prepare_eof can return Ok without storing a fresh EOF carrying the current condition (a cancel after the normal EOF was built would re-send EOF(NoError))")


@rule("C10", "C10-K6", 1, "the sender asks to be woken in every phase in which its timeout handler has something to do", also=("C17",))
def c10_k6(ctx):
    from rules_wiring import _NoCallKills

    ht = ctx.one("C10-K6", "SendTransaction::handle_timeout")
    ut = ctx.one("C10-K6", "SendTransaction::until_timeout")
    names = ctx.prog.variant_names("cfdp_daemon::transaction::send::SendState")
    if not names:
        raise Anchor("C10-K6", "enum SendState")

    def track(key):
        return key[0] == "val" and key[1] == "self.send_state"

    def reachable_calls(fn, phase, pred):
        entry = frozenset([frozenset([(("val", "self.send_state"), (True, frozenset([phase])))])])
        fl = Flow(ctx.prog, _NoCallKills(ctx.mods), fn, track, entry=entry)
        out = []
        for b, t in fn.all_calls():
            cal = ctx.prog.callee_of(t)[1] or ctx.prog.callee_of(t)[0] or ""
            if pred(cal) and fl.at_term(b):
                out.append(cal.split("::")[-1])
        return out

    # "acts" = calls a method of the transaction or of its timers (comparisons of the phase are not actions)
    own = {g.norm for g in impl_fns(ctx, SEND)}

    def acting(c):
        """a call that can change something: a method of the transaction that writes a field of it, or a
        `&mut self` method of its timers (reading the id for a log line is not an action)"""
        g = ctx.prog.by_norm.get(c)
        if g is None:
            return False
        if c in own:
            return bool(ctx.mods.of(c))
        if c.startswith("cfdp_daemon::timer::"):
            return g.arg_count >= 1 and (g.locals[1]["ty"] or "").startswith("&mut")
        return False
    active, armed = {}, {}
    for ph in sorted(set(names.values())):
        acts = reachable_calls(ht, ph, acting)
        if acts:
            active[ph] = sorted(set(acts))
        if reachable_calls(ut, ph, lambda c: c.endswith("Timer::until_timeout") or c.endswith("Counter::until_timeout")):
            armed[ph] = True
    if not active:
        raise Anchor("C10-K6", "phases in which SendTransaction::handle_timeout acts")
    missing = sorted(set(active) - set(armed))
    if missing:
        yield bad("C10-K6", "SendTransaction::until_timeout", at(ut), "handle_timeout acts in phase(s) %s but until_timeout does not return the timer deadline there: the transaction is never woken (no retransmission, no limit, never ends)" % missing)
    else:
        yield ok("C10-K6", "SendTransaction::until_timeout", at(ut), {"active_phases": active, "armed_phases": sorted(armed)})


# ================================================================ C07-S8
INT_W = {"u8": 8, "u16": 16, "u32": 32, "u64": 64, "usize": 64, "u128": 128, "i8": 8, "i16": 16, "i32": 32, "i64": 64, "isize": 64, "i128": 128}


def narrowing_casts(prog, fns):
    """(fn, block, stmt, from, to, provably_lossless) for every integer cast to a narrower type."""
    from ranges import Ranges, ty_range

    for f in fns:
        rg = None
        for b in f.live_blocks():
            for s in f.blocks[b]["stmts"]:
                if s["k"] != "assign" or s["rv"]["k"] != "cast" or not str(s["rv"].get("cast", "")).startswith("IntToInt"):
                    continue
                rv = s["rv"]
                op = rv["op"]
                to = rv["ty"]
                frm = op.get("place", {}).get("ty") if op.get("k") in ("copy", "move") else op.get("ty")
                if frm not in INT_W or to not in INT_W:
                    continue
                if INT_W[to] >= INT_W[frm]:
                    continue
                rg = rg or Ranges(prog, f)
                r = rg.of(rg.eb.operand(op))
                tr = ty_range(to)
                yield f, b, s, frm, to, bool(r and tr and r[0] >= tr[0] and r[1] <= tr[1])


@rule("C07", "C07-S8", 1, "offsets, lengths and sizes keep their width in the transaction code: no integer cast there can truncate (a narrowing `as` must be provably lossless)", also=("C08", "C09", "C20"))
def c07_s8(ctx):
    fns = [f for f in ctx.prog.by_norm.values() if f.crate == "cfdp_daemon" and not f.mac]
    n = 0
    for f, b, s, frm, to, lossless in narrowing_casts(ctx.prog, fns):
        n += 1
        key = "%s:%s->%s" % (short(f.root or f.norm), frm, to) + ("#%d" % n if n > 1 else "")
        txt = expr_str(ExprBuilder(ctx.prog, f, user_stop=True).rvalue(s["rv"]))[:120]
        if lossless:
            yield ok("C07-S8", key, at(f, s["span"]["line"]), "%s is provably within %s" % (txt, to))
        else:
            yield bad("C07-S8", key, at(f, s["span"]["line"]), "%s narrows a %s to %s and can truncate: an offset / length / size beyond %s wraps silently" % (txt, frm, to, to))
    yield ok("C07-S8", "cfdp-daemon:narrowing-casts", "%d functions" % len(fns), "%d narrowing integer casts" % n, nontrivial=(n == 0))


# ================================================================ C08-N8
@rule("C08", "C08-N8", 2, "a prompt solicits a NAK only when it asks for one: where the pending prompt is answered, the NAK queue is refreshed and NAKs are sent only on the Nak arm of the prompt's kind")
def c08_n8(ctx):
    from common import val_in

    fns = impl_fns(ctx, RECV)
    n = 0
    for f in fns:
        eb = ExprBuilder(ctx.prog, f)
        takes = [b for b, t in f.all_calls() if (callee_name(eb.call(b, t)) or "").endswith("Option::take") and "self.prompt" in expr_str(eb.call(b, t)[3][0])]
        if not takes:
            continue

        def track(key):
            return key[0] == "val" and key[1].endswith("nak_or_keep_alive")

        fl = Flow(ctx.prog, ctx.mods, f, track, user_stop=True)
        sites = [(b, j, s["span"]["line"], "naks <- ..") for _f, b, j, s, ps in field_writes([f], "self.naks") if ps == "self.naks"]
        sites += [(b, -1, t["span"]["line"], "send_naks") for _f, b, t, d, r in call_sites([f], ends("RecvTransaction::send_naks"), ctx.prog)]
        for b, j, line, what in sites:
            n += 1
            key = "%s:%s" % (f.name, what) + ("#%d" % n if n > 2 else "")
            worlds = fl.at_stmt(b, j) if j >= 0 else fl.at_term(b)
            good = bool(worlds) and all(any(k[0] == "val" and k[1].endswith("nak_or_keep_alive") and pos and vals == frozenset(["Nak"]) for k, (pos, vals) in w) for w in worlds)
            if good:
                yield ok("C08-N8", key, at(f, line), "only on the Nak arm of the prompt")
            else:
                yield bad("C08-N8", key, at(f, line), "%s while answering a prompt is not confined to the Nak arm: a keep-alive prompt makes the receiver send NAKs it was not asked for (under the deferred procedure, before EOF)" % what)
    if n == 0:
        raise Anchor("C08-N8", "the function answering self.prompt (prompt.take())")


# ================================================================ C08-N9
DELAYED_OK = ("push", "drain", "iter", "iter_mut", "len", "is_empty", "first", "last", "deref", "as_slice", "clear", "retain")


def _only_polled(ctx, f, local, depth=0):
    """The `&mut` element held in `local` is only used to call the polling methods of its counter."""
    from common import local_uses

    if depth > 4:
        return False
    us = local_uses(f, local)
    if not us:
        return False
    for kind, ub, uj, u in us:
        if kind == "stmt":
            if u["place"]["local"] == local:
                return False  # written through
            if u["rv"]["k"] in ("ref", "use") and not u["place"]["proj"]:
                if not _only_polled(ctx, f, u["place"]["local"], depth + 1):
                    return False
                continue
            return False
        if kind == "call":
            d, r, _ = ctx.prog.callee_of(u)
            cal = r or d or ""
            if cal.startswith("cfdp_daemon::timer::Counter::") and cal.split("::")[-1] in ("timeout_occurred", "until_timeout", "limit_reached"):
                continue
            return False
        return False
    return True


@rule("C08", "C08-N9", 3, "a pending delayed gap check is never re-timed or re-aimed: the list of delayed checks is only appended to (a freshly started counter with the gap's own window), polled and drained on expiry")
def c08_n9(ctx):
    fns = impl_and_closures(ctx, RECV)
    n = 0
    cnt = {}
    for f in fns:
        eb = ExprBuilder(ctx.prog, f)
        ebu = ExprBuilder(ctx.prog, f, user_stop=True)
        for b, t in f.all_calls():
            e = eb.call(b, t)
            if e[0] != "call" or not e[3]:
                continue
            if sstr(e[3][0]) != "self.delayed_nack_timers":
                continue
            last = (callee_name(e) or "").split("::")[-1]
            if last in ("deref", "deref_mut", "as_slice", "as_mut_slice"):
                continue  # the view the next call works on; that call is what is classified
            n += 1
            fname = f.name if f.kind != "Closure" else short(f.root or f.norm).split("::")[-1]
            base = "%s:delayed_checks.%s" % (fname, last)
            cnt[base] = cnt.get(base, 0) + 1
            key = base + ("#%d" % cnt[base] if cnt[base] > 1 else "")
            if last in ("clear", "retain", "retain_mut", "truncate", "pop", "remove", "swap_remove", "dedup", "dedup_by", "dedup_by_key"):
                yield bad("C08-N9", key, at(f, t["span"]["line"]), "pending delayed checks are dropped by %s: a gap detected earlier is never asked for" % last)
            elif last == "index_mut" and not t["dest"]["proj"] and _only_polled(ctx, f, t["dest"]["local"]):
                yield ok("C08-N9", key, at(f, t["span"]["line"]), "element borrowed mutably only to poll its counter")
            elif last in ("last_mut", "first_mut", "get_mut", "index_mut", "swap", "sort", "sort_by", "sort_by_key", "sort_unstable_by_key", "reverse", "rotate_left", "rotate_right", "fill", "split_first_mut", "split_last_mut"):
                yield bad("C08-N9", key, at(f, t["span"]["line"]), "a pending delayed check is edited through %s (re-timed, re-aimed or re-ordered): the gap it stands for is requested later than its own delay, or not at all" % last)
            else:
                yield ok("C08-N9", key, at(f, t["span"]["line"]), last)
        # entries reached through iter_mut(): only polled
        for b, t in f.all_calls():
            eu = ebu.call(b, t)
            if eu[0] != "call":
                continue
            cal = callee_name(eu) or ""
            if cal.startswith("cfdp_daemon::timer::Counter::") and eu[3] and ("delayed_nack_timers" in expr_str(ebu.call(b, t)[3][0]) or "delayed_nack_timers" in expr_str(ExprBuilder(ctx.prog, f).call(b, t)[3][0])):
                last = cal.split("::")[-1]
                if last not in ("timeout_occurred", "until_timeout", "limit_reached"):
                    n += 1
                    yield bad("C08-N9", "%s:entry.%s" % (f.name, last), at(f, t["span"]["line"]), "a pending delayed check's counter is %s-ed" % last)
    if n < 3:
        raise Anchor("C08-N9", "uses of RecvTransaction.delayed_nack_timers")


@rule("C08", "C08-N10", 1, "every delayed gap check taken off the list on expiry is carried out: each path from the drain to the end of the timeout handler goes through the consumption of the drained windows by a step that asks the held-range list for their gaps - unconditionally")
def c08_n10(ctx):
    from core import natural_loops

    f = ctx.one("C08-N10", "RecvTransaction::handle_timeout")
    eb = ExprBuilder(ctx.prog, f)
    clos = {c.norm: c for c in ctx.prog.closures_of(f)}

    def reaches_gaps(g):
        return any((ctx.prog.callee_of(t)[1] or ctx.prog.callee_of(t)[0] or "").endswith("Segments::gaps") for h in ctx.prog.reach([g]) for b, t in ctx.prog.by_norm[h].all_calls()) if g is not None else False

    drains = []
    for b, t in f.all_calls():
        e = eb.call(b, t)
        if e[0] == "call" and (callee_name(e) or "").split("::")[-1] == "drain" and e[3] and sstr(e[3][0]) == "self.delayed_nack_timers":
            drains.append((b, t))
    if not drains:
        raise Anchor("C08-N10", "drain of the delayed checks in handle_timeout")

    def from_drain(x, depth=0):
        txt = expr_str(x)
        if "::drain(" in txt or "Vec::drain(" in txt or "drain(&mut self.delayed_nack_timers" in txt:
            return True
        if depth < 4:
            for p in places_in(x):
                if re.match(r"^[A-Za-z_]\w*$", p) and p != "self":
                    if any(from_drain(dx, depth + 1) for dx in eb.var_defs(p)):
                        return True
        return False

    loops = natural_loops(f)
    consumers = set()
    for b, t in f.all_calls():
        e = eb.call(b, t)
        if e[0] != "call" or not e[3]:
            continue
        last = (callee_name(e) or "").split("::")[-1]
        if last == "next" and from_drain(e[3][0]):
            bodies = [bd for h, bd, bk in loops if b in bd]
            if bodies:
                body = min(bodies, key=len)
                if any(f.blocks[x]["term"]["k"] == "call" and (ctx.prog.callee_of(f.blocks[x]["term"])[1] or ctx.prog.callee_of(f.blocks[x]["term"])[0] or "").endswith("Segments::gaps") for x in body):
                    consumers.add(b)
        elif last != "drain" and from_drain(e[3][0]) or any(from_drain(a) for a in e[3][1:2]):
            for a in e[3]:
                for y in walk(a):
                    if y[0] == "agg" and y[1] == "closure" and reaches_gaps(clos.get(y[2]) or ctx.prog.by_norm.get(y[2])):
                        consumers.add(b)
    for i, (b, t) in enumerate(drains):
        key = "handle_timeout:drained-checks-carried-out" + ("#%d" % (i + 1) if i else "")
        start = t["target"]
        r = f.reachable(start, avoid=consumers) if start is not None and start not in consumers else set()
        leak = [x for x in r if f.blocks[x]["term"]["k"] == "return"]
        if not consumers:
            yield bad("C08-N10", key, at(f, t["span"]["line"]), "the windows drained from the delayed checks are never handed to Segments::gaps: the gaps they were scheduled for are not requested")
        elif leak:
            yield bad("C08-N10", key, at(f, t["span"]["line"]), "after the expired delayed checks were taken off the list a path reaches the end of the handler without looking for their gaps (an extra condition on carrying them out): a gap whose delay has run out is never requested")
        else:
            yield ok("C08-N10", key, at(f, t["span"]["line"]), {"consumed_in_blocks": sorted(consumers)})


# ================================================================ C10-K7
@rule("C10", "C10-K7", 1, "the sender's pending-EOF mark is cleared only by handing the EOF to the transport: nothing else (an ACK of an earlier EOF, a timer) can swallow an EOF that still has to go out", also=("C07",))
def c10_k7(ctx):
    fns = impl_fns(ctx, SEND)
    # setters: methods that store their bool parameter into the pending mark of self.eof
    from rules_wiring import _root_local

    setters = {}
    for g in fns:
        ebg = ExprBuilder(ctx.prog, g)
        for b in g.live_blocks():
            for s in g.blocks[b]["stmts"]:
                if s["k"] != "assign" or not s["place"]["proj"]:
                    continue
                wp = s["place"]
                if len(wp["proj"]) == 1 and wp["proj"][0].get("k") == "deref":
                    # `*send_flag = pending` with `send_flag` bound to `&mut x.1` by a pattern
                    from common import ref_target
                    tp = ref_target(g, wp["local"])
                    if tp is not None and tp["proj"]:
                        wp = {"local": tp["local"], "proj": tp["proj"], "ty": wp.get("ty")}
                if wp["proj"][-1].get("k") != "field" or wp["proj"][-1].get("idx") != 1:
                    continue
                # the pending mark: field 1 of the (EndOfFile, bool) held in self.eof, written directly or through as_mut()
                base = dict(wp)
                base["proj"] = wp["proj"][:-1]
                bt = expr_str(ebg.place(base)) if base["proj"] else expr_str(ebg.local(base["local"]))
                mv = re.match(r"^(\w+)(\.\*)?$", bt)
                if mv:
                    bt = " ".join(expr_str(x) for x in ebg.var_defs(mv.group(1)))
                if "self.eof" not in bt:
                    continue
                rv = s["rv"]
                if rv["k"] == "use" and rv["op"].get("k") in ("copy", "move") and not rv["op"]["place"]["proj"]:
                    l = _root_local(g, rv["op"]["place"]["local"])
                    if 2 <= l <= g.arg_count:
                        setters[g.norm] = l - 1
    n = 0
    for f in fns:
        eb = ExprBuilder(ctx.prog, f)
        dom = None
        clears = []
        for b, t in f.all_calls():
            d, r, _ = ctx.prog.callee_of(t)
            cal = r or d or ""
            if cal in setters:
                e = eb.call(b, t)
                a = e[3][setters[cal]] if len(e[3]) > setters[cal] else None
                if a is not None and a[0] == "const" and a[1] in (0, False):
                    clears.append((b, t["span"]["line"], "%s(false)" % cal.split("::")[-1]))
                elif a is not None and not (a[0] == "const"):
                    clears.append((b, t["span"]["line"], "%s(%s)" % (cal.split("::")[-1], expr_str(a)[:40])))
        for _f, b, j, s, ps in field_writes([f], "self.eof"):
            if f.norm in setters or j < 0 or f.name == "new":
                continue
            e = simp(eb.rvalue(s["rv"]))
            txt = expr_str(e)
            if ps == "self.eof" and re.search(r"const\(1\)\}\}$", txt):
                continue  # a fresh EOF marked pending
            if re.search(r"\.1$", ps) and e[0] == "const" and e[1] in (1, True):
                continue
            clears.append((b, s["span"]["line"], "%s <- %s" % (ps, txt[:60])))
        if not clears:
            continue
        dom = dominators(f)
        sends = []
        for b, t in f.all_calls():
            e = eb.call(b, t)
            if (callee_name(e) or "").endswith("Permit::send") and "Operations::EoF" in expr_str(e)[:4000]:
                sends.append(b)
        for b, line, what in clears:
            n += 1
            key = "%s:%s" % (f.name, what.split("(")[0].split(" ")[0]) + ("#%d" % n if n > 1 else "")
            if any(sb in dom.get(b, ()) and sb != b for sb in sends):
                yield ok("C10-K7", key, at(f, line), "%s after the EOF was handed to the transport" % what)
            else:
                yield bad("C10-K7", key, at(f, line), "%s clears the pending-EOF mark without the EOF having been sent here: an EOF (e.g. the one announcing a cancel) queued in the meantime is never transmitted" % what)
    if n == 0:
        raise Anchor("C10-K7", "the place where the pending-EOF mark is cleared")


# ================================================================ C10-K8
@rule("C10", "C10-K8", 2, "a cancelled sender transmits no more file data: whatever hands file data to the transport runs only in the data / EOF phases", also=("C07",))
def c10_k8(ctx):
    from common import val_in, val_not

    f = ctx.one("C10-K8", "SendTransaction::send_pdu")
    names = ctx.prog.variant_names("cfdp_daemon::transaction::send::SendState")
    if not names:
        raise Anchor("C10-K8", "enum SendState")
    allv = set(names.values())
    allowed = {"SendData", "SendEof"}
    # emitters: methods that (transitively) build a file-data payload
    fns = impl_fns(ctx, SEND)
    direct = {g.norm for g in fns if any(True for _ in agg_sites([g], "PDUPayload", "FileData"))}
    emit = set(direct)
    for _ in range(3):
        for g in fns:
            if g.norm not in emit and g.name != "send_pdu" and any((ctx.prog.callee_of(t)[1] or ctx.prog.callee_of(t)[0] or "") in emit for b, t in g.all_calls()):
                emit.add(g.norm)
    if not emit:
        raise Anchor("C10-K8", "the sender method that builds PDUPayload::FileData")

    def track(key):
        return key[0] == "val" and key[1] == "self.send_state"

    fl = Flow(ctx.prog, ctx.mods, f, track)
    n = 0
    for b, t in f.all_calls():
        cal = ctx.prog.callee_of(t)[1] or ctx.prog.callee_of(t)[0] or ""
        if cal not in emit:
            continue
        n += 1
        key = "send_pdu->%s" % cal.split("::")[-1] + ("#%d" % n if n > 1 else "")
        worlds = fl.at_term(b)
        good = bool(worlds) and all(val_in(dict(w), "self.send_state", allowed) or val_not(dict(w), "self.send_state", allv - allowed) for w in worlds)
        if good:
            yield ok("C10-K8", key, at(f, t["span"]["line"]), "only in the SendData / SendEof phases")
        else:
            bw = [w for w in worlds if not (val_in(dict(w), "self.send_state", allowed) or val_not(dict(w), "self.send_state", allv - allowed))]
            yield bad("C10-K8", key, at(f, t["span"]["line"]), "file data can be handed to the transport outside the data / EOF phases (state %s): a cancelled sender keeps answering NAKs and the receiver can still complete and publish the file" % (world_str(bw[0]) if bw else "unreachable"))
    if n == 0:
        raise Anchor("C10-K8", "calls of the file-data emitters in send_pdu")


# ================================================================ C07-S9
@rule("C07", "C07-S9", 2, "while metadata or file data is still to go out the sender always has something to send: has_pdu_to_send cannot be false in the SendMetadata / SendData phases of an active transaction (the EOF is prepared by the data step itself, so a false answer there stalls the transfer for ever)", also=("C18",))
def c07_s9(ctx):
    from rules_wiring import _NoCallKills

    f = ctx.one("C07-S9", "SendTransaction::has_pdu_to_send")

    def track(key):
        return key[0] == "val" and key[1] in ("self.send_state", "self.state")

    eb = ExprBuilder(ctx.prog, f)
    for ph in ("SendMetadata", "SendData"):
        entry = frozenset([frozenset([(("val", "self.send_state"), (True, frozenset([ph]))), (("val", "self.state"), (True, frozenset(["Active"])))])])
        fl = Flow(ctx.prog, _NoCallKills(ctx.mods), f, track, entry=entry)
        vals = []
        for d in f.defs(0):
            if d[0] == "assign":
                ws = fl.at_stmt(d[1], d[2])
                if not ws:
                    continue  # not reachable in this phase
                e = simp(eb.rvalue(d[3]))
                vals.append((expr_str(e)[:80], d[1]))
            elif d[0] == "call":
                if fl.at_term(d[1]):
                    vals.append((sstr(eb.call(d[1], d[2]))[:80], d[1]))
        key = "SendTransaction::has_pdu_to_send:%s" % ph
        # `a || b` assigns true on the short-circuit edge and the value of b on the other: every value that can be
        # returned in this phase must be the constant true
        bad_vals = [v for v, b in vals if v not in ("const(1)", "const(True)")]
        if vals and not bad_vals:
            yield ok("C07-S9", key, at(f), "always true in the %s phase of an active transaction" % ph)
        else:
            yield bad("C07-S9", key, at(f), "has_pdu_to_send can answer %s in the %s phase: the step that sends the next data (and finally prepares the EOF) is never scheduled and no timer runs in that phase - the transaction hangs" % (bad_vals or "nothing", ph))


# ================================================================ C07-S10: every received request is queued
DROPPING_ADAPTORS = ("filter", "filter_map", "take_while", "skip_while", "take", "skip", "step_by", "map_while", "scan", "find", "find_map", "nth", "last", "dedup", "dedup_by", "dedup_by_key", "retain", "truncate", "pop", "remove", "swap_remove", "drain", "clear", "split_off")


@rule("C07", "C07-S10", 1, "every segment request of a received NAK reaches the retransmission queue: between the PDU and the queue the list of requests passes through no adaptor that can drop one (filter, take_while, skip, dedup ...); a request is only split into segment-sized pieces")
def c07_s10(ctx):
    f = ctx.one("C07-S10", "SendTransaction::process_pdu")
    fns = [f] + ctx.prog.closures_of(f)
    n = 0
    found = False
    for g in fns:
        eb = ExprBuilder(ctx.prog, g)
        for b, t in g.all_calls():
            e = eb.call(b, t)
            if e[0] != "call" or not e[3]:
                continue
            a0 = expr_str(e[3][0])
            if "segment_requests" not in a0:
                continue
            found = True
            last = (callee_name(e) or "").split("::")[-1]
            if last in DROPPING_ADAPTORS and not ("ops::Range" in a0 and last == "step_by"):
                n += 1
                yield bad("C07-S10", "process_pdu:segment_requests.%s" % last + ("#%d" % n if n > 1 else ""), at(g, t["span"]["line"]), "the received requests pass through %s before they are queued: a request it rejects (wholly, although part of it may lie inside the file) is never answered" % last)
    if not found:
        raise Anchor("C07-S10", "the received NAK's segment_requests in SendTransaction::process_pdu")
    if n == 0:
        yield ok("C07-S10", "process_pdu:segment_requests", at(f), "no dropping adaptor between the received list and the queue")


# ================================================================ C08-N11: who may arm the NAK timer
@rule("C08", "C08-N11", 3, "under the deferred procedure nothing makes a NAK go out before the EOF: the receiver's NAK timer is armed only when a NAK was just sent, on resume, or on a path where the procedure is Immediate or the EOF has been received")
def c08_n11(ctx):
    fns = impl_fns(ctx, RECV)
    n = 0
    cnt = {}
    for f in fns:
        fl = None
        for b, t in f.all_calls():
            d, r, _ = ctx.prog.callee_of(t)
            cal = r or d or ""
            if not (cal.endswith("Timer::restart_nak") or cal.endswith("Timer::reset_nak")):
                continue
            n += 1
            base = "RecvTransaction::%s:%s" % (f.name, cal.split("::")[-1])
            cnt[base] = cnt.get(base, 0) + 1
            key = base + ("#%d" % cnt[base] if cnt[base] > 1 else "")
            if f.name in ("send_naks", "resume"):
                yield ok("C08-N11", key, at(f, t["span"]["line"]), "armed where a NAK is sent / on resume (C19-D checks its condition)")
                continue
            if fl is None:
                fl = Flow(ctx.prog, ctx.mods, f, lambda k: (k[0] == "val" and k[1].endswith("nak_procedure")) or (k[0] == "call" and k[1].split("::")[-1] == "eof_received"))
            ws = [dict(w) for w in fl.at_term(b)]

            def allowed(w):
                for k, (pos, vs) in w.items():
                    if k[0] == "val" and k[1].endswith("nak_procedure") and ((pos and set(vs) == {"Immediate"}) or (not pos and "Deferred" in vs)):
                        return True
                    if k[0] == "call" and pos and set(vs) == {1}:
                        return True
                return False

            if ws and all(allowed(w) for w in ws):
                yield ok("C08-N11", key, at(f, t["span"]["line"]), "under the Immediate procedure / after EOF")
            else:
                yield bad("C08-N11", key, at(f, t["span"]["line"]), "%s arms the NAK timer on a path where the procedure may be Deferred and no EOF has been received: when it expires the receiver queues and sends a NAK that nobody solicited" % f.name)
    if n == 0:
        raise Anchor("C08-N11", "restart_nak / reset_nak in the receiver")


# ================================================================ C07-S11: who may move the first-pass cursor
@rule("C07", "C07-S11", 1, "the file checksum - which rewinds the source file and reads it to the end - is computed only where the EOF is prepared (the first pass is over or abandoned there): anywhere else it would leave the first-pass cursor at the end of the file and the rest of the file would never be sent", also=("C19", "C01"))
def c07_s11(ctx):
    fns = impl_fns(ctx, SEND)
    n = 0
    for f in fns:
        for b, t in f.all_calls():
            d, r, _ = ctx.prog.callee_of(t)
            cal = r or d or ""
            if not (cal.endswith("SendTransaction::get_checksum") or (cal.endswith("FileChecksum>::checksum") or cal.endswith("FileChecksum::checksum")) and f.name != "get_checksum"):
                continue
            n += 1
            key = "SendTransaction::%s->%s" % (f.name, cal.split("::")[-1]) + ("#%d" % n if n > 1 else "")
            if f.name == "prepare_eof":
                yield ok("C07-S11", key, at(f, t["span"]["line"]), "checksum computed where the EOF is prepared")
            else:
                yield bad("C07-S11", key, at(f, t["span"]["line"]), "%s computes the file checksum: the source file is read to its end and the first-pass cursor stays there - what the sender transmits next is an empty segment at the end of the file instead of the data that follows" % f.name)
    if n == 0:
        raise Anchor("C07-S11", "calls of SendTransaction::get_checksum")
