"""Codec rules: C05, C06, C15."""
