"""Panic-site audit (C06-P1, C11-I2, C14-P): every potentially panicking construct in a
call-graph region is discharged by a sound local argument or matched against a reviewed
table of justified sites; anything else is reported."""
import re

from core import ExprBuilder, callee_name, expr_str, short, dominators, walk
from ranges import Ranges, ty_range

# callee name suffixes that can panic, and how to try to discharge them
PANICKING_CALLS = (
    ("std::option::Option::unwrap", "unwrap"),
    ("std::option::Option::expect", "unwrap"),
    ("std::result::Result::unwrap", "unwrap"),
    ("std::result::Result::expect", "unwrap"),
    ("std::result::Result::unwrap_err", "unwrap"),
    ("std::result::Result::expect_err", "unwrap"),
    ("std::option::Option::unwrap_unchecked", "unwrap"),
    ("core::panicking::panic", "panic"),
    ("core::panicking::panic_fmt", "panic"),
    ("core::panicking::panic_explicit", "panic"),
    ("core::panicking::panic_display", "panic"),
    ("core::panicking::unreachable_display", "panic"),
    ("core::panicking::assert_failed", "panic"),
    ("std::rt::begin_panic", "panic"),
    ("std::rt::panic_fmt", "panic"),
    ("std::ops::Index>::index", "index"),
    ("std::ops::IndexMut>::index_mut", "index"),
    ("std::ops::Index::index", "index"),
    ("std::ops::IndexMut::index_mut", "index"),
    ("std::vec::Vec::insert", "vec_insert"),
    ("std::vec::Vec::remove", "index"),
    ("std::vec::Vec::swap_remove", "index"),
    ("std::vec::Vec::drain", "index"),
    ("std::vec::Vec::split_off", "index"),
    ("std::collections::VecDeque::drain", "index"),
    ("std::collections::VecDeque::remove", "none"),  # returns Option
    ("core::slice::copy_from_slice", "index"),
    ("core::slice::clone_from_slice", "index"),
    ("core::slice::split_at", "index"),
    ("core::slice::split_at_mut", "index"),
    ("core::slice::chunks", "nonzero_arg"),
    ("core::slice::chunks_exact", "nonzero_arg"),
    ("core::slice::windows", "nonzero_arg"),
    ("std::iter::Iterator::step_by", "nonzero_arg"),
    ("std::cell::RefCell::borrow", "panic"),
    ("std::cell::RefCell::borrow_mut", "panic"),
    ("core::num::pow", "panic"),
    ("core::num::div_euclid", "panic"),
    ("core::num::rem_euclid", "panic"),
    ("core::num::abs", "panic"),
    ("core::num::next_power_of_two", "panic"),
    ("core::str::from_utf8_unchecked", "none"),
    ("std::time::Instant::duration_since", "none"),  # saturates since 1.60
    ("std::ops::Sub>::sub", "time_sub"),
    ("std::ops::Add>::add", "time_add"),
    ("std::ops::AddAssign>::add_assign", "time_add"),
)


def _panicking_kind(nm, decl):
    for suf, kind in PANICKING_CALLS:
        for x in (nm, decl):
            if not x:
                continue
            if x == suf or x.endswith(suf.split("::", 1)[1]) and (x.startswith(("std::", "core::", "alloc::", "<")) or "::" not in suf):
                return kind
            if suf.startswith("std::ops::") and x.endswith(suf[len("std::ops::"):]) and (" as std::ops::" in x):
                return kind
    return None


class Site:
    def __init__(self, fn, block, kind, line, txt, status, reason, mac=None):
        self.fn = fn
        self.block = block
        self.kind = kind
        self.line = line
        self.txt = txt
        self.status = status  # 'discharged' | 'justified' | 'open'
        self.reason = reason
        self.mac = mac


def _within(r, tr):
    return r is not None and tr is not None and r[0] >= tr[0] and r[1] <= tr[1]


def _assert_site(prog, fn, rg, b, t, eb):
    msg = t["msg"]
    cond = eb.operand(t["cond"])
    txt = expr_str(cond)[:220]
    kind = "assert:" + msg
    # overflow:<Op> on (OpWithOverflow(a,b)).1 == False
    m = re.match(r"^overflow:(Add|Sub|Mul)$", msg)
    if m and cond[0] == "proj" and cond[1][0] == "binop" and cond[1][1] == m.group(1) + "WithOverflow":
        a, bb = cond[1][2], cond[1][3]
        ra0, rb0 = rg.of(a), rg.of(bb)
        if (m.group(1) == "Add" and ((0, 0) in (ra0, rb0))) or (m.group(1) == "Sub" and rb0 == (0, 0)) or (m.group(1) == "Mul" and (ra0 in ((0, 0), (1, 1)) or rb0 in ((0, 0), (1, 1)))):
            return Site(fn, b, kind, t["span"]["line"], txt, "discharged", "D1 neutral operand: cannot overflow")
        r = rg._arith(m.group(1), a, bb, 0)
        tr = ty_range(rg.ty_of(a)) or ty_range(rg.ty_of(bb))
        if _within(r, tr):
            return Site(fn, b, kind, t["span"]["line"], txt, "discharged", "D1 interval %s within %s" % (r, tr))
        if m.group(1) == "Sub" and rb0 and rb0[0] == rb0[1] and rb0[0] >= 0:
            # D6': `x - c` under a comparison still in force that shows x >= c
            lb = _value_lower_bound(prog, fn, b, expr_str(a))
            if lb >= rb0[0]:
                return Site(fn, b, kind, t["span"]["line"], txt, "discharged", "D6 %s >= %d by a test still in force" % (expr_str(a)[:60], lb))
            # ... `v.len() - c` under `!v.is_empty()` / a length test still in force
            a_ = a
            while a_[0] in ("cast", "ref"):
                a_ = a_[2]
            if a_[0] == "call" and (callee_name(a_) or "").split("::")[-1] == "len" and len(a_[3]) == 1:
                srcs = expr_str(a_[3][0])
                if re.match(r"^&?(mut )?[\w.]+$", srcs):
                    lb2 = _len_lower_bound(prog, fn, b, srcs)
                    if lb2 >= rb0[0]:
                        return Site(fn, b, kind, t["span"]["line"], txt, "discharged", "D6 len(%s) >= %d by a test still in force" % (srcs, lb2))
        if m.group(1) == "Add" and (rg.ty_of(a) or rg.ty_of(bb)) == "usize":
            # D7: lengths of at most two distinct live allocations plus a small constant: the allocations
            # are disjoint parts of one address space, their sizes sum well below usize::MAX
            leaves = []

            def flat(x):
                if x[0] == "proj" and x[1][0] == "binop" and x[1][1] == "AddWithOverflow" and x[2] == ".0":
                    flat(x[1][2]); flat(x[1][3])
                elif x[0] == "binop" and x[1] in ("Add", "AddWithOverflow"):
                    flat(x[2]); flat(x[3])
                else:
                    leaves.append(x)

            flat(a); flat(bb)
            lens = [expr_str(x[3][0]) for x in leaves if x[0] == "call" and (callee_name(x) or "").split("::")[-1] == "len" and len(x[3]) == 1 and rg.of(x) == (0, 2**63 - 1)]
            consts = [x[1] for x in leaves if x[0] == "const" and isinstance(x[1], int)]
            if len(lens) + len(consts) == len(leaves) and 1 <= len(lens) <= 2 and len(set(lens)) == len(lens) and sum(consts) <= 4096:
                return Site(fn, b, kind, t["span"]["line"], txt, "discharged", "D7 sum of the lengths of %d distinct live allocation(s) plus %d" % (len(lens), sum(consts)))
        return Site(fn, b, kind, t["span"]["line"], txt, "open", "interval %s not within %s" % (r, tr))
    if msg in ("overflow:Shl", "overflow:Shr") and cond[0] == "binop" and cond[1] == "Lt":
        r = rg.of(cond[2])
        lim = rg.of(cond[3])
        if r and lim and r[1] < lim[0]:
            return Site(fn, b, kind, t["span"]["line"], txt, "discharged", "D5 shift amount %s < %s" % (r, lim[0]))
        return Site(fn, b, kind, t["span"]["line"], txt, "open", "shift amount %s" % (r,))
    if msg == "bounds" and cond[0] == "binop" and cond[1] == "Lt":
        r = rg.of(cond[2])
        lim = rg.of(cond[3])
        if r and lim and r[0] >= 0 and r[1] < lim[0]:
            return Site(fn, b, kind, t["span"]["line"], txt, "discharged", "D2 index %s < len %s" % (r, lim[0]))
        # D6: the index is below a length established by a test still in force
        lenop = cond[3]
        srcs = None
        if lenop[0] == "unop" and lenop[1] == "PtrMetadata":
            srcs = expr_str(lenop[2])
        elif lenop[0] == "call" and (callee_name(lenop) or "").split("::")[-1] == "len" and lenop[3]:
            srcs = expr_str(lenop[3][0])
        if r and r[0] >= 0 and srcs and re.match(r"^&?(mut )?[\w.]+$", srcs):
            lb = _len_lower_bound(prog, fn, b, srcs)
            if r[1] < lb:
                return Site(fn, b, kind, t["span"]["line"], txt, "discharged", "D6 index %s < %d <= len(%s) by a test still in force" % (r, lb, srcs))
        return Site(fn, b, kind, t["span"]["line"], txt, "open", "index %s, len %s" % (r, lim))
    if msg in ("div_zero", "rem_zero") and cond[0] == "binop" and cond[1] == "Eq":
        r = rg.of(cond[2])
        if r and (r[0] > 0 or r[1] < 0):
            return Site(fn, b, kind, t["span"]["line"], txt, "discharged", "D1 divisor %s excludes 0" % (r,))
        return Site(fn, b, kind, t["span"]["line"], txt, "open", "divisor %s" % (r,))
    if msg == "overflow:Neg":
        return Site(fn, b, kind, t["span"]["line"], txt, "open", "negation")
    return Site(fn, b, kind, t["span"]["line"], txt, "open", "unrecognised assert")


def _array_len(ty):
    m = re.search(r"\[u8; (\d+)(_usize)?\]", ty or "")
    return int(m.group(1)) if m else None


def _call_site(prog, fn, rg, b, t, eb, ebf):
    d, r, info = prog.callee_of(t)
    nm = r or d or ""
    kind = _panicking_kind(nm, d)
    if kind is None or kind == "none":
        return None
    e = eb.call(b, t)
    txt = expr_str(e)[:220]
    line = t["span"]["line"]
    k = "call:" + nm.split("::")[-1]
    if kind == "vec_insert":
        idx = rg.of(e[3][1]) if len(e[3]) > 1 else None
        if idx == (0, 0):
            return Site(fn, b, k, line, txt, "discharged", "insert at index 0 never exceeds len")
        return Site(fn, b, k, line, txt, "open", "insert index %s" % (idx,))
    if kind == "nonzero_arg":
        a = rg.of(e[3][1]) if len(e[3]) > 1 else None
        if a and a[0] > 0:
            return Site(fn, b, k, line, txt, "discharged", "argument %s is non-zero" % (a,))
        return Site(fn, b, k, line, txt, "open", "argument %s may be zero" % (a,))
    if kind in ("time_sub", "time_add"):
        ty = (rg.ty_of(e[3][0]) or "") if e[3] else ""
        if "Instant" in ty or "Duration" in ty or "SystemTime" in ty:
            return Site(fn, b, k, line, txt, "open", "time arithmetic panics on overflow/underflow")
        return None
    if kind == "unwrap":
        inner = e[3][0] if e[3] else None
        full = ebf.call(b, t)
        inner_f = full[3][0] if full[3] else None
        # D3: from_u8(x).unwrap() with range(x) within the enum's discriminants
        x = inner
        if x is not None and x[0] == "call" and (callee_name(x) or "").split("::")[-1] in ("from_u8", "from_u16", "from_u32", "from_u64", "from_usize", "from_i64"):
            ret = x[4][2] if len(x[4]) > 2 else ""
            names = prog.variant_names(re.sub(r"^(std|core)::option::Option<(.*)>$", r"\2", ret))
            rr = rg.of(x[3][0]) if x[3] else None
            if names and rr and all(v in names for v in range(rr[0], rr[1] + 1)) and rr[1] - rr[0] < 300:
                return Site(fn, b, k, line, txt, "discharged", "D3 argument %s within the discriminants of %s" % (rr, short(ret)))
            return Site(fn, b, k, line, txt, "open", "from-primitive argument %s not within discriminants" % (rr,))
        # D4: v.try_into::<[u8;N]>().expect(..) dominated by the len(v) == N edge
        if x is not None and x[0] == "call" and (callee_name(x) or "").endswith("try_into"):
            n = _array_len(x[4][2] if len(x[4]) > 2 else "")
            src = expr_str(x[3][0]) if x[3] else ""
            if n is not None and _dominated_by_len_edge(prog, fn, b, src, n):
                return Site(fn, b, k, line, txt, "discharged", "D4 dominated by the len(%s) == %d edge" % (src, n))
            xf = inner_f if inner_f is not None and inner_f[0] == "call" and inner_f[3] else x
            if n is not None and x[3] and _chunks_exact_item(prog, fn, x[3][0], xf[3][0], n):
                return Site(fn, b, k, line, txt, "discharged", "D4' %s is an item of chunks_exact(%d): its length is exactly %d" % (src, n, n))
            return Site(fn, b, k, line, txt, "open", "try_into to [u8; %s] not dominated by a length test" % n)
        return Site(fn, b, k, line, txt, "open", "unwrap/expect on %s" % (expr_str(inner)[:100] if inner else "?"))
    if kind == "index":
        # D6: `v[a..]`, `v[..b]`, `v[a..b]`, `split_at(v, n)` under a length test still in force
        need = None
        src = expr_str(e[3][0]) if e[3] else ""
        if len(e[3]) > 1:
            a1 = e[3][1]
            if a1[0] == "agg" and a1[1] == "adt" and (a1[3] or a1[2]).split("::")[-1] in ("RangeFrom", "RangeTo") and len(a1[5]) == 1:
                rr = rg.of(a1[5][0])
                need = rr[1] if rr and rr[0] >= 0 else None
            elif a1[0] == "agg" and a1[1] == "adt" and (a1[3] or a1[2]).split("::")[-1] == "Range" and len(a1[5]) == 2:
                ra, rb = rg.of(a1[5][0]), rg.of(a1[5][1])
                if ra and rb and ra[0] >= 0 and ra[1] <= rb[0]:
                    need = rb[1]
            elif nm.split("::")[-1] in ("split_at", "split_at_mut"):
                a1s = a1
                if a1s[0] == "proj" and a1s[1][0] == "binop" and a1s[1][1] == "SubWithOverflow" and a1s[2] == ".0":
                    inner = a1s[1][2]
                    if inner[0] == "call" and (callee_name(inner) or "").split("::")[-1] == "len" and inner[3] and expr_str(inner[3][0]).lstrip("&").replace("mut ", "") == re.sub(r"[()]|\.\*|Deref>::deref|&", "", src).replace("mut ", "").strip():
                        return Site(fn, b, k, line, txt, "discharged", "D6 split point len(x) - c <= len(x) (the subtraction is checked on its own)")
                rr = rg.of(a1)
                need = rr[1] if rr and rr[0] >= 0 else None
        if need is not None and e[3]:
            x_ = e[3][0]
            while x_[0] in ("ref", "cast"):
                x_ = x_[2]
            ma = re.match(r"^\[[^;\]]+; (\d+)(_usize)?\]$", (rg.ty_of(x_) or "").replace("&", "").replace("mut ", "").strip())
            if ma and need <= int(ma.group(1)):
                return Site(fn, b, k, line, txt, "discharged", "D2 range end %d <= %s, the length of the array" % (need, ma.group(1)))
        if nm.split("::")[-1] in ("remove", "swap_remove") and len(e[3]) > 1:
            a1s = e[3][1]
            if a1s[0] == "proj" and a1s[1][0] == "binop" and a1s[1][1] == "SubWithOverflow" and a1s[2] == ".0":
                inner, c_ = a1s[1][2], a1s[1][3]
                if inner[0] == "call" and (callee_name(inner) or "").split("::")[-1] == "len" and inner[3] and c_[0] == "const" and isinstance(c_[1], int) and c_[1] >= 1 and expr_str(inner[3][0]).lstrip("&").replace("mut ", "") == src.lstrip("&").replace("mut ", ""):
                    return Site(fn, b, k, line, txt, "discharged", "D6 index len(x) - %d < len(x) (the subtraction is checked on its own)" % c_[1])
        if need is not None and re.match(r"^&?(mut )?[\w.*()]+$", src):
            s2 = src.replace("(", "").replace(")", "").replace(".*", "")
            lb = _len_lower_bound(prog, fn, b, s2)
            if need <= lb:
                return Site(fn, b, k, line, txt, "discharged", "D6 range end %d <= %d <= len(%s) by a test still in force" % (need, lb, s2))
        return Site(fn, b, k, line, txt, "open", "range/index operation")
    return Site(fn, b, k, line, txt, "open", "panicking API")


_LB_FLOW = {}


def _len_lower_bound(prog, fn, blk, src):
    """Largest k such that on every path to the end of block `blk` a test still in force
    (the tested slice not written since) shows len(src) >= k.  Tests understood: `!src.is_empty()`,
    `src.len() <op> c`.  Path-sensitive (world-set dataflow), so a guard re-evaluated at a loop head
    counts for the body and a reassignment of `src` kills it."""
    from df import Flow, Mods

    src = src.lstrip("&").replace("mut ", "").strip()
    key = (id(prog), fn.norm)
    if key not in _LB_FLOW:
        def track(k):
            if k[0] == "call":
                return k[1].split("::")[-1] == "is_empty"
            if k[0] == "expr":
                return "len(" in k[1] or "PtrMetadata(" in k[1]
            return False

        try:
            _LB_FLOW[key] = Flow(prog, _mods(prog), fn, track)
        except RuntimeError:
            _LB_FLOW[key] = None
    fl = _LB_FLOW[key]
    if fl is None:
        return 0
    worlds = fl.at_term(blk)
    if not worlds:
        return 0
    lens = ("slice::len(%s)" % src, "Vec::len(%s)" % src, "Vec::len(&%s)" % src, "slice::len(&%s)" % src, "PtrMetadata(%s)" % src, "VecDeque::len(&%s)" % src, "str::len(%s)" % src)
    best = None
    for w in worlds:
        lb = 0
        for k, (pos, vals) in w:
            if not pos or len(vals) != 1:
                continue
            v = list(vals)[0]
            if k[0] == "call" and k[1].split("::")[-1] == "is_empty" and len(k[2]) == 1 and k[2][0].lstrip("&").replace("mut ", "") in (src, "%s.*" % src) and v == 0:
                lb = max(lb, 1)
            if k[0] == "expr":
                m = re.match(r"^(Lt|Le|Gt|Ge|Eq|Ne)\((.+), const\((\d+)\)\)$", k[1])
                if m and m.group(2) in lens:
                    op, c = m.group(1), int(m.group(3))
                    if op == "Lt" and v == 0:
                        lb = max(lb, c)
                    elif op == "Le" and v == 0:
                        lb = max(lb, c + 1)
                    elif op == "Gt" and v == 1:
                        lb = max(lb, c + 1)
                    elif op == "Ge" and v == 1:
                        lb = max(lb, c)
                    elif op == "Eq" and v == 1:
                        lb = max(lb, c)
                    elif op == "Ne" and v == 1 and c == 0:
                        lb = max(lb, 1)
                m = re.match(r"^(Lt|Le|Gt|Ge)\(const\((\d+)\), (.+)\)$", k[1])
                if m and m.group(3) in lens:
                    op, c = m.group(1), int(m.group(2))
                    if op == "Lt" and v == 1:
                        lb = max(lb, c + 1)
                    elif op == "Le" and v == 1:
                        lb = max(lb, c)
                    elif op == "Gt" and v == 0:
                        lb = max(lb, c)
                    elif op == "Ge" and v == 0:
                        lb = max(lb, c + 1)
        best = lb if best is None else min(best, lb)
    return best or 0


_VB_FLOW = {}


def _value_lower_bound(prog, fn, blk, txt):
    """Largest c such that on every path to the end of `blk` a comparison still in force shows
    value(txt) >= c (`if x < 2 { return Err } .. x - 2`)."""
    from df import Flow

    key = (id(prog), fn.norm, "vb")
    if key not in _VB_FLOW:
        def track(k):
            return k[0] == "expr" and re.match(r"^(Lt|Le|Gt|Ge|Eq|Ne)\(", k[1]) is not None

        try:
            _VB_FLOW[key] = Flow(prog, _mods(prog), fn, track, user_stop=True)
        except RuntimeError:
            _VB_FLOW[key] = None
    fl = _VB_FLOW[key]
    if fl is None:
        return 0
    worlds = fl.at_term(blk)
    if not worlds:
        return 0
    best = None
    for w in worlds:
        lb = 0
        for k, (pos, vals) in w:
            if k[0] != "expr" or not pos or len(vals) != 1:
                continue
            v = list(vals)[0]
            m = re.match(r"^(Lt|Le|Gt|Ge|Eq)\((.+), const\((\d+)\)\)$", k[1])
            if m and m.group(2) == txt:
                op, c = m.group(1), int(m.group(3))
                if op == "Lt" and v == 0:
                    lb = max(lb, c)
                elif op == "Le" and v == 0:
                    lb = max(lb, c + 1)
                elif op == "Gt" and v == 1:
                    lb = max(lb, c + 1)
                elif op == "Ge" and v == 1:
                    lb = max(lb, c)
                elif op == "Eq" and v == 1:
                    lb = max(lb, c)
            m = re.match(r"^(Lt|Le|Gt|Ge)\(const\((\d+)\), (.+)\)$", k[1])
            if m and m.group(3) == txt:
                op, c = m.group(1), int(m.group(2))
                if op == "Lt" and v == 1:
                    lb = max(lb, c + 1)
                elif op == "Le" and v == 1:
                    lb = max(lb, c)
                elif op == "Gt" and v == 0:
                    lb = max(lb, c)
                elif op == "Ge" and v == 0:
                    lb = max(lb, c + 1)
        best = lb if best is None else min(best, lb)
    return best or 0


def _mods(prog):
    from df import Mods

    if getattr(prog, "_mods_for_panics", None) is None:
        prog._mods_for_panics = Mods(prog)
    return prog._mods_for_panics


def _chunks_exact_item(prog, fn, src, src_full, n):
    """src is an item a `ChunksExact` iterator yields - the Some payload of its next(), or the parameter of a
    closure handed to an adaptor over it - and every chunks_exact(..) of the enclosing function has the
    constant size n."""
    root = prog.by_norm.get(fn.root or "") or fn
    family = [root] + prog.closures_of(root)
    sizes = []
    for g in family:
        geb = ExprBuilder(prog, g)
        for b, t in g.all_calls():
            d, r, _ = prog.callee_of(t)
            if (r or d or "").split("::")[-1] in ("chunks_exact", "chunks_exact_mut", "as_chunks", "array_chunks"):
                e = geb.call(b, t)
                sizes.append(e[3][1][1] if len(e[3]) > 1 and e[3][1][0] == "const" else None)
        # an iterator of that type coming in from outside has an unknown size
        if g is root and any("ChunksExact" in (g.locals[i]["ty"] or "") for i in range(1, g.arg_count + 1)):
            return False
    if not sizes or any(z != n for z in sizes):
        return False

    def has_ce(e):
        return any(x[0] == "place" and "ChunksExact<" in (x[2] or "") for x in walk(e)) or any(x[0] == "call" and len(x[4]) > 2 and "ChunksExact<" in (x[4][2] or "") for x in walk(e))

    for cand in (src, src_full):
        for x in walk(cand):
            if x[0] == "call" and (callee_name(x) or "").endswith("Iterator>::next") and x[3] and has_ce(x[3][0]):
                return True
    # closure parameter
    p = src
    while p[0] == "ref" or (p[0] == "proj" and p[2] == ".*"):
        p = p[2] if p[0] == "ref" else p[1]
    if fn.kind == "Closure" and p[0] == "place" and fn.arg_count >= 2:
        par = [vn for vn, l, pj in fn.var_places if 2 <= l <= fn.arg_count and not pj and "[u8]" in (fn.locals[l]["ty"] or "")]
        parent = prog.by_norm.get(fn.parent or "")
        if par and p[1] in par and parent is not None:
            peb = ExprBuilder(prog, parent)
            for b, t in parent.all_calls():
                e = peb.call(b, t)
                if (callee_name(e) or "").split("::")[-1] not in ("for_each", "try_for_each", "map", "fold", "filter_map", "for_each_mut"):
                    continue
                if not any(y[0] == "agg" and y[1] == "closure" and y[2] == fn.norm for a in e[3][1:] for y in walk(a)):
                    continue
                if e[3] and has_ce(e[3][0]):
                    return True
    return False


def _dominated_by_len_edge(prog, fn, blk, src, n):
    """blk is reachable only through the edge `len(src) == n` of some switch."""
    eb = ExprBuilder(prog, fn, user_stop=True)
    dom = dominators(fn)
    for b in fn.live_blocks():
        t = fn.blocks[b]["term"]
        if t["k"] != "switch":
            continue
        e = eb.operand(t["discr"])
        # the discriminant is len(src), possibly via a user variable
        cands = [e]
        if e[0] == "place":
            cands = eb.var_defs(e[1]) or [e]
        good = False
        for c in cands:
            if c[0] == "call" and (callee_name(c) or "").split("::")[-1] == "len" and c[3] and expr_str(c[3][0]).lstrip("&") == src.lstrip("&"):
                good = True
        if not good:
            continue
        for v, tb in t["targets"]:
            if v == n and tb in dom.get(blk, ()) and len(fn.preds(tb)) == 1:
                return True
    return False


def audit(ctx, prog, fns, justified=()):
    """Sites of all potentially panicking constructs in `fns`."""
    out = []
    for fn in fns:
        rg = Ranges(prog, fn)
        eb = rg.eb
        ebf = ExprBuilder(prog, fn)
        for b in fn.live_blocks():
            t = fn.blocks[b]["term"]
            s = None
            rg.at(b)  # ranges of variables as they are at this site (reaching definitions)
            if t["k"] == "assert":
                s = _assert_site(prog, fn, rg, b, t, eb)
            elif t["k"] == "call":
                s = _call_site(prog, fn, rg, b, t, eb, ebf)
            if s is None:
                continue
            s.mac = t["span"].get("mac") if t["span"].get("exp") else None
            if s.status == "open":
                for j in justified:
                    if not (fn.norm.endswith(j["fn"]) or (fn.root or "").endswith(j["fn"])):
                        continue
                    if j.get("kind") and (s.kind not in j["kind"] if isinstance(j["kind"], (tuple, list)) else j["kind"] != s.kind):
                        continue
                    if j.get("mac") and (s.mac or "") != j["mac"]:
                        continue
                    if j.get("match") and not re.search(j["match"], s.txt):
                        continue
                    if j.get("sem") and not j["sem"](prog, fn, b, t, ebf):
                        continue
                    s.status = "justified"
                    s.reason = j["reason"]
                    break
            out.append(s)
    return out
