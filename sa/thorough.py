"""Thorough tier: (1) mutation self-test - every hand-written one-instance mutant of the
property (sa/mutants.py) and every confirmed seeded change written against it
(/verif/seeded/<id>/patch.diff) is applied to a scratch copy of /repo's working tree, facts are
re-extracted and the property's rules must report something they do not report on the
unchanged tree; (2) for the panic audits, a second extraction with the release profile
(overflow checks off) whose remaining Assert terminators must be discharged too.
Nothing here runs cfdp-rs code; nothing is written to /repo. Results go into the evidence;
a missed mutant is a weakness of the checker and is reported as such, never as a violation of
the property on the tree under test."""
import fcntl
import json
import os
import shutil
import subprocess
import time

import engine
import facts as factsmod
from mutants import MUTANTS

VERIF = engine.VERIF
SCRATCH = os.path.join(VERIF, ".cache", "scratch-thorough")


def _sync(repo):
    os.makedirs(SCRATCH, exist_ok=True)
    subprocess.run(["rsync", "-a", "--delete", "--exclude", "target", "--exclude", ".git", repo.rstrip("/") + "/", SCRATCH + "/"], check=True)


def _bad_keys(insts):
    return {i.full_key() for i in insts if not i.ok}


def _run_on_scratch(prop, tier="quick"):
    f, th = factsmod.extract(repo=SCRATCH, profile="dev", target_tag="thorough")
    ctx = engine.Ctx(f, th, tier)
    insts, reports = engine.run_property(ctx, prop)
    return insts


def selftest(prop, repo, base_insts, budget_s=1500):
    base = _bad_keys(base_insts)
    out = {"mutants": [], "fired": 0, "total": 0, "skipped": 0, "missed": []}
    t0 = time.time()
    os.makedirs(os.path.join(VERIF, ".cache"), exist_ok=True)
    with open(os.path.join(VERIF, ".cache", "thorough.lock"), "w") as lk:
        fcntl.flock(lk, fcntl.LOCK_EX)
        jobs = [("hand:" + m["id"], m) for m in MUTANTS.get(prop, [])]
        sd = os.path.join(VERIF, "seeded")
        if os.path.isdir(sd):
            for d in sorted(os.listdir(sd)):
                mp = os.path.join(sd, d, "meta.json")
                if os.path.exists(mp) and json.load(open(mp)).get("property") == prop:
                    jobs.append(("seeded:" + d, {"patch": os.path.join(sd, d, "patch.diff")}))
        for name, m in jobs:
            if time.time() - t0 > budget_s:
                out["mutants"].append({"id": name, "result": "not run (time budget)"})
                out["skipped"] += 1
                continue
            _sync(repo)
            rec = {"id": name}
            if "patch" in m:
                r = subprocess.run(["patch", "-p1", "--forward", "--batch", "-i", m["patch"]], cwd=SCRATCH, stdout=subprocess.PIPE, stderr=subprocess.STDOUT, text=True)
                if r.returncode != 0:
                    rec["result"] = "skipped: patch does not apply to the tree under test"
                    out["skipped"] += 1
                    out["mutants"].append(rec)
                    continue
            else:
                p = os.path.join(SCRATCH, m["file"])
                src = open(p).read() if os.path.exists(p) else ""
                if src.count(m["old"]) != 1:
                    rec["result"] = "skipped: anchor text occurs %d times in %s" % (src.count(m["old"]), m["file"])
                    out["skipped"] += 1
                    out["mutants"].append(rec)
                    continue
                open(p, "w").write(src.replace(m["old"], m["new"]))
            try:
                insts = _run_on_scratch(prop)
            except RuntimeError as e:
                rec["result"] = "invalid mutant (does not compile): %s" % str(e)[-200:]
                out["skipped"] += 1
                out["mutants"].append(rec)
                continue
            new = sorted(_bad_keys(insts) - base)
            out["total"] += 1
            if new:
                out["fired"] += 1
                rec["result"] = "fired"
                rec["reported"] = new[:4]
                if m.get("rule") and not any(k.startswith(m["rule"]) for k in new):
                    rec["note"] = "reported by another rule than the one it targets (%s)" % m["rule"]
            else:
                rec["result"] = "MISSED"
                out["missed"].append(name)
            out["mutants"].append(rec)
        _sync(repo)
    out["wall_s"] = round(time.time() - t0, 1)
    return out


def release_audit(ctx, prop):
    """Re-run the panic-audit rules on release-profile facts (overflow checks off)."""
    if ctx.rel_prog is None:
        return None
    rel = engine.Ctx.__new__(engine.Ctx)
    rel.facts = None
    rel.tree_hash = ctx.tree_hash
    rel.tier = ctx.tier
    rel.prog = ctx.rel_prog
    from df import Mods

    rel.mods = Mods(rel.prog)
    rel.cache = {}
    rel.rel_prog = None
    rel.stats = {}
    n = bad = 0
    open_sites = []
    for r in engine.RULES.get(prop, []):
        if r.rid not in ("C06-P1", "C11-I2", "C14-P"):
            continue
        try:
            for i in r.fn(rel):
                n += 1
                if not i.ok:
                    bad += 1
                    open_sites.append(i.full_key())
        except engine.Anchor as a:
            open_sites.append("anchor:" + a.what)
    return {"sites": n, "undischarged": bad, "undischarged_keys": open_sites[:10]}


def run(ctx, prop, insts, reports, repo=None):
    extra = {}
    repo = repo or factsmod.REPO
    try:
        extra["mutation_selftest"] = selftest(prop, repo, insts)
    except Exception as e:  # the self-test must never turn into a verdict
        extra["mutation_selftest"] = {"error": repr(e)[:300]}
    ra = release_audit(ctx, prop)
    if ra is not None:
        extra["release_profile_audit"] = ra
    return extra
