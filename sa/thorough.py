def run(ctx, prop, insts, reports):
    return {}
