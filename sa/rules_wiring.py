"""C17 (fault / handler / timer wiring)."""
import re

from core import ExprBuilder, callee_name, expr_str, short, strip_generics, walk, places_in, calls_in
from df import Flow, world_str
from engine import rule, ok, bad, undecided, at, Anchor
from common import (
    RECV,
    SEND,
    impl_fns,
    impl_and_closures,
    call_sites,
    ends,
    agg_sites,
    field_writes,
    all_worlds_satisfy,
    call_key,
)

TXNS = ((RECV, "RecvTransaction"), (SEND, "SendTransaction"))
LIMIT_FAULTS = {"PositiveLimitReached": "ack", "NakLimitReached": "nak", "InactivityDetected": "inactivity"}
ACTION_ROUTINE = {"Cancel": "_cancel", "Suspend": "suspend", "Abandon": "abandon", "Ignore": None}


def _action_switch(ctx, f):
    """The SwitchInt of handle_fault that dispatches on the FaultHandlerAction."""
    eb = ExprBuilder(ctx.prog, f)
    for b in f.live_blocks():
        t = f.blocks[b]["term"]
        if t["k"] != "switch":
            continue
        e = eb.operand(t["discr"])
        if e[0] != "discr":
            continue
        inner = e[1]
        ty = inner[-1] if inner[0] in ("place", "proj") else (inner[4][2] if inner[0] == "call" else "")
        if isinstance(ty, str) and ty.replace("&", "").replace("mut ", "").strip().endswith("FaultHandlerAction"):
            return b, t, inner
    return None


def _peel(e):
    while e[0] in ("ref",) or (e[0] == "proj" and e[2] in (".*",)):
        e = e[2] if e[0] == "ref" else e[1]
    return e


@rule("C17", "C17-H1", 2, "the action taken for a fault is the one configured for that condition, Cancel when none is configured")
def c17_h1(ctx):
    for adt, nm in TXNS:
        f = ctx.one("C17-H1", nm + "::handle_fault")
        sw = _action_switch(ctx, f)
        key = "%s::handle_fault:action" % nm
        if sw is None:
            yield undecided("C17-H1", key, at(f), "no dispatch on a FaultHandlerAction value found")
            continue
        b, t, e = sw
        e = _peel(e)
        # re-build without user_stop so that the whole chain is visible
        full = ExprBuilder(ctx.prog, f)
        e = _peel(full.operand(t["discr"])[1])
        if e[0] == "place":
            ds = full.var_defs(e[1])
            e = _peel(ds[0]) if len(ds) == 1 else e
        problems = []
        # `match map.get(k) { Some(a) => a, None => &Cancel }` is `map.get(k).unwrap_or(&Cancel)`
        alts = None
        if e[0] == "phi":
            alts = [_peel(a) for a in e[2]]
        elif e[0] == "place" and re.match(r"^\w+$", e[1]):
            ds2 = [_peel(d) for d in full.var_defs(e[1])]
            if len(ds2) == 2:
                alts = ds2
        if alts and len(alts) == 2:
            somes = [a for a in alts if a[0] == "proj" and a[2].startswith("@Some.0") and _peel(a[1])[0] == "call"]
            consts = [a for a in alts if a[0] == "agg"]
            if len(somes) == 1 and len(consts) == 1:
                lk = _peel(somes[0][1])
                e = ("call", "core::option::Option::unwrap_or", "core::option::Option::unwrap_or", (lk, consts[0]), (0, 0, ""), {})
        if not (e[0] == "call" and (callee_name(e) or "").endswith("Option::unwrap_or") and len(e[3]) == 2):
            problems.append("the action is %s, not <lookup>.unwrap_or(&FaultHandlerAction::Cancel)" % expr_str(e)[:200])
        else:
            look, dflt = _peel(e[3][0]), _peel(e[3][1])
            # `.get(k).cloned()` / `.copied()`: the same entry by value
            while look[0] == "call" and (callee_name(look) or "").endswith(("Option::cloned", "Option::copied")) and len(look[3]) == 1:
                look = _peel(look[3][0])
            if not (dflt[0] == "agg" and dflt[3] == "Cancel" and dflt[2].endswith("FaultHandlerAction")):
                problems.append("default action is %s, not FaultHandlerAction::Cancel" % expr_str(dflt))
            if not (look[0] == "call" and (callee_name(look) or "").endswith("HashMap::get") and len(look[3]) == 2):
                problems.append("lookup is %s, not HashMap::get(fault_handler_override, condition)" % expr_str(look)[:160])
            else:
                m, k = _peel(look[3][0]), _peel(look[3][1])
                if not (m[0] == "place" and m[1] == "self.config.fault_handler_override"):
                    problems.append("map looked up is %s" % expr_str(m))
                kk = expr_str(k)
                cond_arg = [vn for vn, l, proj in f.var_places if l == 2 and not proj]
                if kk == "self.condition":
                    ws = [(fb, j, s) for _f, fb, j, s, ps in field_writes([f], "self.condition")]
                    srcs = {expr_str(ExprBuilder(ctx.prog, f, user_stop=True).rvalue(s["rv"])) for _, j, s in ws if j >= 0}
                    if not ws or srcs != set(cond_arg):
                        problems.append("key self.condition is not (only) assigned from the declared condition: %s" % sorted(srcs))
                    elif not all(_dominates(f, wb, b) for wb, _, _ in ws):
                        problems.append("self.condition is assigned after the lookup")
                elif kk not in cond_arg:
                    problems.append("lookup key is %s, not the declared condition" % kk)
        if problems:
            for i, p in enumerate(problems):
                yield bad("C17-H1", key + (":%d" % i if i else ""), at(f, t["span"]["line"]), p)
        else:
            yield ok("C17-H1", key, at(f, t["span"]["line"]), expr_str(e)[:200])


def _dominates(f, a, b):
    if a == b:
        return True
    return b not in f.reachable(0, avoid=[a])


def _arm_blocks(f, t):
    """variant-value -> blocks reachable from that arm's target and from no other arm's target."""
    reach = {v: f.reachable(tb) for v, tb in t["targets"]}
    out = {}
    for v, r in reach.items():
        others = set()
        for v2, r2 in reach.items():
            if v2 != v:
                others |= r2
        out[v] = r - others
    return out


@rule("C17", "C17-H2", 8, "each handler action runs its own routine: Ignore changes nothing, Cancel cancels, Suspend suspends, Abandon abandons")
def c17_h2(ctx):
    for adt, nm in TXNS:
        f = ctx.one("C17-H2", nm + "::handle_fault")
        sw = _action_switch(ctx, f)
        if sw is None:
            raise Anchor("C17-H2", nm + "::handle_fault dispatch")
        b, t, e = sw
        names = ctx.prog.variant_names("cfdp_core::pdu::fault_handler::FaultHandlerAction") or ctx.prog.variant_names("cfdp_core::pdu::FaultHandlerAction")
        if not names:
            raise Anchor("C17-H2", "enum FaultHandlerAction")
        arms = _arm_blocks(f, t)
        seen = set()
        for v, blocks in arms.items():
            var = names.get(v, str(v))
            seen.add(var)
            key = "%s::handle_fault:%s" % (nm, var)
            self_calls = []
            writes = []
            for x in sorted(blocks):
                blk = f.blocks[x]
                for s in blk["stmts"]:
                    if s["k"] == "assign":
                        ps = f.place_str(s["place"])
                        if ps.startswith("self.") or ps == "self":
                            writes.append(ps)
                tt = blk["term"]
                if tt["k"] == "call":
                    d, r, _ = ctx.prog.callee_of(tt)
                    cal = r or d or ""
                    if cal.startswith(adt + "::"):
                        self_calls.append(cal.split("::")[-1])
            want = ACTION_ROUTINE.get(var, "?")
            others = [c for c in self_calls if c in ("_cancel", "cancel", "suspend", "abandon", "shutdown", "resume") and c != want]
            if want is None:
                mut_calls = []
                for c in self_calls:
                    m = ctx.mods.of(adt + "::" + c)
                    if m is None or m:
                        mut_calls.append(c)
                if writes or mut_calls:
                    yield bad("C17-H2", key, at(f, t["span"]["line"]), "the Ignore arm changes transaction state: writes %s, calls %s" % (writes, mut_calls))
                else:
                    yield ok("C17-H2", key, at(f, t["span"]["line"]), "no state change")
            elif want == "?":
                yield undecided("C17-H2", key, at(f, t["span"]["line"]), "unknown FaultHandlerAction variant %s" % var)
            elif want in self_calls and not others:
                yield ok("C17-H2", key, at(f, t["span"]["line"]), "calls %s" % want)
            else:
                yield bad("C17-H2", key, at(f, t["span"]["line"]), "the %s arm calls %s (expected exactly %s)" % (var, self_calls, want))
        missing = set(ACTION_ROUTINE) - seen
        if missing:
            yield bad("C17-H2", "%s::handle_fault:missing-arms" % nm, at(f, t["span"]["line"]), "no dedicated arm for %s" % sorted(missing))


@rule("C17", "C17-H9", 4, "the receiver's fault handler tells its caller to carry on exactly when the configured action is Ignore: the verdict is true on that arm and false after Cancel, Suspend and Abandon", also=("C13", "C19"))
def c17_h9(ctx):
    f = ctx.one("C17-H9", "RecvTransaction::handle_fault")
    sw = _action_switch(ctx, f)
    if sw is None:
        raise Anchor("C17-H9", "RecvTransaction::handle_fault dispatch")
    sb, t, e = sw
    names = ctx.prog.variant_names("cfdp_core::pdu::fault_handler::FaultHandlerAction") or ctx.prog.variant_names("cfdp_core::pdu::FaultHandlerAction")
    if not names:
        raise Anchor("C17-H9", "enum FaultHandlerAction")
    # blocks that set the verdict: `_0 = Ok(x)`
    sites = {}
    for b in f.live_blocks():
        for st in f.blocks[b]["stmts"]:
            if st["k"] == "assign" and st["place"]["local"] == 0 and not st["place"]["proj"] and st["rv"]["k"] == "agg" and st["rv"].get("variant") == "Ok" and len(st["rv"]["ops"]) == 1:
                op = st["rv"]["ops"][0]
                sites[b] = (op.get("val") if op.get("k") == "const" else None, st["span"]["line"])
    if not sites:
        raise Anchor("C17-H9", "Ok(verdict) returns of RecvTransaction::handle_fault")
    arms = [(names.get(v, str(v)), tb) for v, tb in t["targets"]]
    listed = {a for a, _ in arms}
    rest = [a for a in ("Ignore", "Cancel", "Suspend", "Abandon") if a not in listed]
    if rest and t.get("otherwise") is not None and f.blocks[t["otherwise"]]["term"]["k"] != "unreachable":
        arms.append(("|".join(rest), t["otherwise"]))
    for var, tb in arms:
        # the verdict sites first met on the paths of this arm
        seen, work, met = set(), [tb], []
        while work:
            x = work.pop()
            if x in seen:
                continue
            seen.add(x)
            if x in sites:
                met.append(x)
                continue
            work.extend(y for y, _l in f.succs(x))
        key = "RecvTransaction::handle_fault:verdict[%s]" % var
        want = var == "Ignore"
        if not met:
            yield bad("C17-H9", key, at(f, t["span"]["line"]), "the %s arm returns no verdict of its own" % var)
            continue
        vals = {sites[x][0] for x in met}
        if None in vals:
            yield bad("C17-H9", key, at(f, sites[met[0]][1]), "after %s the verdict returned to the caller is computed from something other than the action taken: for some state the caller carries on (or stops) when it must not" % var)
        elif "|" in var and want in {bool(v) for v in vals} and len({bool(v) for v in vals}) > 1:
            yield bad("C17-H9", key, at(f, sites[met[0]][1]), "actions %s share an arm that returns both verdicts" % var)
        elif {bool(v) for v in vals} != {want} and "|" not in var:
            yield bad("C17-H9", key, at(f, sites[met[0]][1]), "after %s the handler tells its caller %s" % (var, "to stop" if want else "to carry on"))
        elif "|" in var and {bool(v) for v in vals} != {False}:
            yield bad("C17-H9", key, at(f, sites[met[0]][1]), "the arm shared by %s tells the caller to carry on" % var)
        else:
            yield ok("C17-H9", key, at(f, sites[met[0]][1]), "%s -> %s" % (var, want if "|" not in var else False))


def _nothing_follows(ctx, f, t):
    """After the call returns, the function only returns: no further call on the transaction, no write to it."""
    start = t.get("target")
    if start is None:
        return False
    for x in f.reachable(start):
        blk = f.blocks[x]
        for st in blk["stmts"]:
            if st["k"] == "assign" and f.place_str(st["place"]).startswith("self"):
                return False
        tt = blk["term"]
        if tt["k"] == "call":
            d, r, _ = ctx.prog.callee_of(tt)
            cal = r or d or ""
            if cal.startswith("cfdp_daemon::") or cal.startswith("cfdp_core::filestore"):
                return False
    return True


VERDICT_IGNORED_OK = {
    # by the fault declared, not by the function it is declared in (the size check may be inlined into the EOF arms)
    "FilesizeError": "the EOF arms re-test recv_state / state right after the size check (they never continue on the verdict)",
}


@rule("C17", "C17-H10", 5, "the fault handler's verdict is obeyed: every caller in the receive transaction branches on it (or hands it on); it is dropped only where the caller re-tests the transaction state itself", also=("C13", "C19"))
def c17_h10(ctx):
    from common import local_uses

    fns = impl_fns(ctx, RECV)
    n = 0
    cnt = {}
    for f in fns:
        for b, t in f.all_calls():
            d, r, _ = ctx.prog.callee_of(t)
            if not (r or d or "").endswith("RecvTransaction::handle_fault"):
                continue
            n += 1
            base = "RecvTransaction::%s:handle_fault-verdict" % f.name
            cnt[base] = cnt.get(base, 0) + 1
            key = base + ("#%d" % cnt[base] if cnt[base] > 1 else "")
            ce = ExprBuilder(ctx.prog, f).call(b, t)
            carg = ce[3][1] if ce[0] == "call" and len(ce[3]) > 1 else None
            cond_name = carg[3] if carg is not None and carg[0] == "agg" else None
            # follow the Result through `?` to the bool and see whether it reaches a switch or the return value
            seen = set()
            work = [t["dest"]["local"]] if not t["dest"]["proj"] else [0]
            used = False
            while work and not used:
                l = work.pop()
                if l in seen:
                    continue
                seen.add(l)
                if l == 0:
                    used = True
                    break
                isb = (f.locals[l]["ty"] or "") == "bool"
                for kind, ub, uj, u in local_uses(f, l):
                    if kind == "switch":
                        used = used or isb
                    elif kind == "stmt":
                        if u["rv"]["k"] == "discr" and not isb:
                            continue  # the `?` looking at Ok / Err
                        work.append(u["place"]["local"])
                    elif kind == "call":
                        dd, rr, _i = ctx.prog.callee_of(u)
                        cal = rr or dd or ""
                        if cal.endswith("from_residual"):
                            continue
                        if cal.endswith("::branch") or cal.endswith("::not") or not isb:
                            if not u["dest"]["proj"]:
                                work.append(u["dest"]["local"])
                        else:
                            used = True
            if used:
                yield ok("C17-H10", key, at(f, t["span"]["line"]), "verdict branched on / handed on")
            elif _nothing_follows(ctx, f, t):
                yield ok("C17-H10", key, at(f, t["span"]["line"]), "verdict not looked at, and nothing is done after the call but return")
            elif cond_name in VERDICT_IGNORED_OK:
                yield ok("C17-H10", key, at(f, t["span"]["line"]), "verdict dropped: " + VERDICT_IGNORED_OK[cond_name])
            else:
                yield bad("C17-H10", key, at(f, t["span"]["line"]), "%s drops the fault handler's verdict and carries on whatever action was taken: what follows (delivery, filestore requests, further PDUs) runs for a transaction that was just cancelled, suspended or abandoned" % f.name)
    if n == 0:
        raise Anchor("C17-H10", "calls of RecvTransaction::handle_fault")


@rule("C17", "C17-H3", 2, "abandon stops at once: it reaches no transmission and terminates the transaction")
def c17_h3(ctx):
    for adt, nm in TXNS:
        f = ctx.one("C17-H3", nm + "::abandon")
        seen = ctx.prog.reach([f])
        sends = []
        term = False
        for n in seen:
            g = ctx.prog.by_norm[n]
            if g.norm.endswith("::send_indication") or (g.parent or "").endswith("::send_indication"):
                continue
            for b, t in g.all_calls():
                d, r, _ = ctx.prog.callee_of(t)
                cal = r or d or ""
                if cal.endswith("Permit::send") or cal.endswith("::send_pdu") or re.search(r"::prepare_(eof|finished|ack|ack_eof|prompt)$", cal) or re.search(r"::set_(eof|finished)_flag$", cal):
                    sends.append("%s@L%d->%s" % (short(n), t["span"]["line"], short(cal)))
            for _f, b, j, s, ps in field_writes([g], "self.state"):
                if j >= 0:
                    e = ExprBuilder(ctx.prog, g).rvalue(s["rv"])
                    if e[0] == "agg" and e[3] == "Terminated":
                        term = True
        key = "%s::abandon" % nm
        if sends:
            yield bad("C17-H3", key, at(f), "abandon reaches a transmission / a PDU preparation: %s" % sends)
        elif not term:
            yield bad("C17-H3", key, at(f), "abandon does not reach `state = Terminated`")
        else:
            yield ok("C17-H3", key, at(f), {"reachable": len(seen), "terminates": True})


def _root_local(f, l, depth=0):
    """Follow `tmp = move/copy x` chains of a temporary back to the local it copies."""
    if depth > 6:
        return l
    ds = f.defs(l)
    if len(ds) == 1 and ds[0][0] == "assign" and ds[0][3]["k"] == "use" and ds[0][3]["op"].get("k") in ("move", "copy") and not ds[0][3]["op"]["place"]["proj"]:
        return _root_local(f, ds[0][3]["op"]["place"]["local"], depth + 1)
    return l


def _fault_forwarders(ctx, fns, nm):
    """Methods of the transaction that hand one of their own parameters on to handle_fault
    (directly or through another such method): {fn.norm: argument index}."""
    fw = {}
    changed = True
    rounds = 0
    while changed and rounds < 4:
        changed = False
        rounds += 1
        for f in fns:
            if f.norm in fw:
                continue
            for b, t in f.all_calls():
                d, r, _ = ctx.prog.callee_of(t)
                cal = r or d or ""
                idx = 1 if cal.endswith(nm + "::handle_fault") else None
                if idx is None:
                    g = ctx.prog.by_norm.get(cal)
                    if g is not None and g.norm in fw:
                        idx = fw[g.norm]
                if idx is None or idx >= len(t["args"]):
                    continue
                a = t["args"][idx]
                if a.get("k") in ("move", "copy") and not a["place"]["proj"]:
                    l = _root_local(f, a["place"]["local"])
                    if 1 <= l <= f.arg_count:
                        fw[f.norm] = l - 1
                        changed = True
                        break
    return fw


@rule("C17", "C17-H4", 5, "a limit fault is declared only under the matching counter's limit_reached(), and only through the handler routine")
def c17_h4(ctx):
    def track(key):
        return key[0] == "call" and key[1].endswith("Counter::limit_reached")

    n = 0
    for adt, nm in TXNS:
        fns = impl_fns(ctx, adt)
        fw = _fault_forwarders(ctx, fns, nm)
        cnt = {}
        sites = []
        for f in fns:
            for b, t in f.all_calls():
                d, r, _ = ctx.prog.callee_of(t)
                cal = r or d or ""
                if cal.endswith(nm + "::handle_fault"):
                    sites.append((f, b, t, 1))
                else:
                    g = ctx.prog.by_norm.get(cal)
                    if g is not None and g.norm in fw:
                        sites.append((f, b, t, fw[g.norm]))
        for f, b, t, idx in sites:
            e = ExprBuilder(ctx.prog, f).call(b, t)
            c = e[3][idx] if len(e[3]) > idx else None
            if c is None or c[0] != "agg" or c[3] not in LIMIT_FAULTS:
                continue
            n += 1
            which = LIMIT_FAULTS[c[3]]
            base = "%s::%s:handle_fault(%s)" % (nm, f.name, c[3])
            cnt[base] = cnt.get(base, 0) + 1
            key = base + ("#%d" % cnt[base] if cnt[base] > 1 else "")
            fl = Flow(ctx.prog, ctx.mods, f, track)
            worlds = fl.at_term(b)
            good, w = all_worlds_satisfy(worlds, lambda dw: call_key(dw, "Counter::limit_reached", True, arg_contains="self.timer." + which))
            if good and worlds:
                yield ok("C17-H4", key, at(f, t["span"]["line"]), "under timer.%s.limit_reached() == true" % which)
            else:
                yield bad("C17-H4", key, at(f, t["span"]["line"]), "%s declared without timer.%s.limit_reached() == true on the path: state %s" % (c[3], which, world_str(w) if w is not None else "unreachable"))
        # every construction of a limit-fault constant is the argument of handle_fault
        for f in impl_and_closures(ctx, adt):
            for var in LIMIT_FAULTS:
                for _f, b, j, s in agg_sites([f], "Condition", var):
                    dest = s["place"]
                    uses_ok = False
                    if not dest["proj"]:
                        from common import local_uses

                        def only_handler(l, depth=0):
                            """Every use of the constant hands it (possibly through moves/copies) to
                            handle_fault / a forwarder, or borrows it for a comparison."""
                            if depth > 6:
                                return False
                            us = local_uses(f, l)
                            if not us:
                                return depth > 0
                            for k, ub, uj, u in us:
                                if k == "stmt" and u["rv"]["k"] == "ref":
                                    continue
                                if k == "stmt" and u["rv"]["k"] == "use" and not u["place"]["proj"]:
                                    if not only_handler(u["place"]["local"], depth + 1):
                                        return False
                                    continue
                                if k == "call":
                                    d, r, _ = ctx.prog.callee_of(u)
                                    cal = r or d or ""
                                    g = ctx.prog.by_norm.get(cal)
                                    pos = [i for i, a in enumerate(u["args"]) if a.get("k") in ("move", "copy") and a["place"]["local"] == l]
                                    if cal.endswith("::handle_fault") and pos == [1]:
                                        continue
                                    if g is not None and g.norm in fw and pos == [fw[g.norm]]:
                                        continue
                                    if cal.endswith("::eq") or cal.endswith("::ne"):
                                        continue
                                return False
                            return True

                        uses_ok = only_handler(dest["local"])
                    key = "%s::%s:Condition::%s" % (nm, f.name, var)
                    if not uses_ok:
                        yield bad("C17-H4", key, at(f, s["span"]["line"]), "Condition::%s constructed outside a handle_fault call / comparison (a limit fault declared without the handler)" % var)
    if n == 0:
        raise Anchor("C17-H4", "handle_fault(<limit fault>) call sites")


REARM = {
    # (txn, timer) -> predicate over (callee last segment, arg exprs, field writes in block)
    ("RecvTransaction", "ack"): ("set_finished_flag(true) and restart_ack", lambda calls, writes: ("set_finished_flag", "const(1)") in calls and any(c[0] == "restart_ack" for c in calls)),
    ("RecvTransaction", "nak"): ("self.naks = get_all_naks()", lambda calls, writes: any(w == ("self.naks", "get_all_naks") for w in writes)),
    ("RecvTransaction", "inactivity"): ("restart_inactivity", lambda calls, writes: any(c[0] == "restart_inactivity" for c in calls)),
    ("SendTransaction", "ack"): ("set_eof_flag(true)", lambda calls, writes: ("set_eof_flag", "const(1)") in calls),
}


@rule("C17", "C17-W", 5, "each non-limit expiry re-arms exactly the PDU (or timer) it guards", also=("C10",))
def c17_w(ctx):
    n = 0
    for adt, nm in TXNS:
        f = ctx.one("C17-W", nm + "::handle_timeout")
        eb = ExprBuilder(ctx.prog, f)
        # methods of the transaction that end in the fault handler or abandon on every path
        always_fault = set()
        for g in impl_fns(ctx, adt):
            if g.name in ("handle_fault", "abandon", "handle_timeout"):
                continue
            stop = set()
            for b2, t2 in g.all_calls():
                d2, r2, _ = ctx.prog.callee_of(t2)
                if (r2 or d2 or "").endswith((nm + "::handle_fault", nm + "::abandon")):
                    stop.add(b2)
            if stop and not any(g.blocks[x]["term"]["k"] == "return" for x in g.reachable(0, avoid=stop)):
                always_fault.add(g.name)
        # per block: self-calls and field writes
        info = {}
        for b in f.live_blocks():
            blk = f.blocks[b]
            calls, writes = [], []
            for s in blk["stmts"]:
                if s["k"] == "assign" and f.place_str(s["place"]).startswith("self."):
                    e = eb.rvalue(s["rv"])
                    cn = [(callee_name(c) or "").split("::")[-1] for c in calls_in(e)]
                    writes.append((f.place_str(s["place"]), cn[0] if cn else expr_str(e)[:40]))
            t = blk["term"]
            if t["k"] == "call":
                d, r, _ = ctx.prog.callee_of(t)
                cal = (r or d or "").split("::")[-1]
                e = eb.call(b, t)
                calls.append((cal, expr_str(e[3][1]) if len(e[3]) > 1 else ""))
                ps = f.place_str(t["dest"])
                if ps.startswith("self."):
                    writes.append((ps, cal))
            info[b] = (calls, writes)
        cnt = {}
        fl = None
        for b, t in f.all_calls():
            d, r, _ = ctx.prog.callee_of(t)
            if not (r or d or "").endswith("Counter::timeout_occurred"):
                continue
            e = eb.call(b, t)
            m = re.match(r"^&mut self\.timer\.(\w+)$", expr_str(e[3][0]))
            if not m:
                continue  # delayed-NAK counters: not one of the three limit timers
            which = m.group(1)
            n += 1
            base = "%s::handle_timeout:%s-expired" % (nm, which)
            cnt[base] = cnt.get(base, 0) + 1
            key = base + ("#%d" % cnt[base] if cnt[base] > 1 else "")
            spec = REARM.get((nm, which))
            if spec is None:
                yield undecided("C17-W", key, at(f, t["span"]["line"]), "no re-arm action known for this timer")
                continue
            # the switch on the call's result
            sb = t["target"]
            st = f.blocks[sb]["term"]
            if st["k"] != "switch" or not [tb for v, tb in st["targets"] if v == 0]:
                yield undecided("C17-W", key, at(f, t["span"]["line"]), "result of timeout_occurred is not branched on directly")
                continue
            true_start = st["otherwise"]
            # blocks that complete the obligation: the re-arm action, a fault / abandon, an error exit
            done = set()
            region = f.reachable(true_start)
            # collect the actions along single blocks: an action may span several blocks (flag + timer)
            # -> require every path to pass blocks that together satisfy the predicate; approximate by
            # checking the predicate on the union of the straight-line chain following each candidate
            for x in region:
                calls, writes = [], []
                y = x
                hops = 0
                while y is not None and hops < 6:
                    c, w = info.get(y, ([], []))
                    calls += c
                    writes += w
                    su = f.succs(y)
                    y = su[0][0] if len(su) == 1 else None
                    hops += 1
                c0, w0 = info.get(x, ([], []))
                if (c0 or w0) and spec[1](calls, writes):
                    done.add(x)
                if any(c[0] in ("handle_fault", "abandon", "from_residual") or c[0] in always_fault for c in c0):
                    done.add(x)
            # blocks where every path state says this very timer had NOT expired are not on a path from
            # the expired branch (joins of an Option-returning helper, shared tails)
            if fl is None:
                fl = Flow(ctx.prog, ctx.mods, f, lambda k: k[0] == "call" and k[1].endswith("Counter::timeout_occurred"))
            dead = set()
            for x in region:
                ws = fl.at_term(x)
                if x != true_start and ws and all(call_key(dict(w), "Counter::timeout_occurred", False, arg_contains="self.timer." + which) for w in ws):
                    dead.add(x)
            r2 = f.reachable(true_start, avoid=done | dead)
            if any(f.blocks[x]["term"]["k"] == "return" for x in r2) and true_start not in done:
                yield bad("C17-W", key, at(f, t["span"]["line"]), "after timer.%s expired (limit not reached) a path returns without %s" % (which, spec[0]))
            else:
                yield ok("C17-W", key, at(f, t["span"]["line"]), "every path after the expiry passes: %s (or a fault/abandon)" % spec[0])
    if n == 0:
        raise Anchor("C17-W", "timeout_occurred tests in handle_timeout")


@rule("C17", "C17-H7", 2, "receiving a PDU resets (does not merely restart) the inactivity count, in both transaction kinds", also=("C11",))
def c17_h7(ctx):
    for adt, nm in TXNS:
        f = ctx.one("C17-H7", nm + "::process_pdu")
        got = []
        for b, t in f.all_calls():
            d, r, _ = ctx.prog.callee_of(t)
            cal = (r or d or "")
            if cal.endswith("Timer::reset_inactivity") or cal.endswith("Timer::restart_inactivity") or (cal.endswith("Counter::reset") or cal.endswith("Counter::restart")):
                got.append((cal.split("::")[-1], t["span"]["line"], b))
        key = "%s::process_pdu:inactivity" % nm
        resets = [g for g in got if g[0] in ("reset_inactivity",)]
        restarts = [g for g in got if g[0] in ("restart_inactivity",)]
        if restarts:
            yield bad("C17-H7", key, at(f, restarts[0][1]), "PDU reception restarts the inactivity timer without clearing its count: non-consecutive expirations add up to an inactivity fault")
        elif not resets:
            yield bad("C17-H7", key, at(f), "PDU reception does not reset the inactivity count")
        else:
            # the reset must happen before the PDU is dispatched: it dominates every return
            rb = resets[0][2]
            if nm == "RecvTransaction" and not all(_dominates(f, rb, x) for x in f.return_blocks()):
                yield bad("C17-H7", key, at(f, resets[0][1]), "the inactivity reset does not happen for every received PDU")
            elif nm == "SendTransaction" and not _only_phase_bypass(ctx, f, {g[2] for g in resets}):
                yield bad("C17-H7", key, at(f, resets[0][1]), "in the phase in which the sender's inactivity timer runs (after its EOF) the count is cleared for some received PDUs only: silent periods separated by the others add up to an inactivity fault")
            else:
                yield ok("C17-H7", key, at(f, resets[0][1]), "reset_inactivity on reception")


def _only_phase_bypass(ctx, f, rb):
    """Every way round the reset is taken on the transaction phase alone (send_state != SendEof)."""
    region = f.reachable(0)
    can = {x for x in region if x in rb or (rb & f.reachable(x))}
    if 0 not in can:
        return False
    byp = set()
    for x in can:
        if x in rb:
            continue
        for y, _l in f.succs(x):
            if y in region and y not in can and any(f.blocks[z]["term"]["k"] == "return" for z in f.reachable(y)):
                byp.add(y)
    fl = Flow(ctx.prog, ctx.mods, f, lambda k: k[0] == "val" and k[1] == "self.send_state")
    for y in byp:
        for w in fl.at_term(y):
            good = False
            for k, (pos, vs) in w:
                if k == ("val", "self.send_state") and ((pos and "SendEof" not in vs) or (not pos and "SendEof" in vs)):
                    good = True
            if not good:
                return False
    return True


COUNTER = "cfdp_daemon::timer::Counter"


@rule("C17", "C17-T", 5, "the expiration counter: reset clears the count, restart keeps it, the count grows by one per elapsed timeout, the limit test compares count with the configured maximum")
def c17_t(ctx):
    fns = {f.name: f for f in impl_fns(ctx, COUNTER)}
    for need in ("reset", "restart", "update", "limit_reached", "timeout_occurred"):
        if need not in fns:
            raise Anchor("C17-T", "Counter::" + need)
    # writers of self.count over the whole impl
    for f in fns.values():
        eb = ExprBuilder(ctx.prog, f)
        for _f, b, j, s, ps in field_writes([f], "self.count"):
            e = eb.rvalue(s["rv"]) if j >= 0 else eb.call(b, s)
            txt = expr_str(e)
            key = "Counter::%s:count<-" % f.name
            leaves = set()
            for x in walk(e):
                if x[0] == "place":
                    leaves.add(x[1])
                elif x[0] == "const":
                    leaves.add("const(%s)" % (x[1],))
            if txt == "const(0)":
                if f.name in ("reset", "new"):
                    yield ok("C17-T", key + "0", at(f, s["span"]["line"]), "count cleared")
                else:
                    yield bad("C17-T", key + "0", at(f, s["span"]["line"]), "Counter::%s clears the expiration count (only reset may)" % f.name)
            elif f.name == "update" and leaves <= {"self.count", "const(1)", "const(0)", "self.max_count"} and "self.count" in leaves and "const(1)" in leaves and "Add" in txt:
                # must sit in the loop guarded by elapsed >= timeout
                fl_ok = _under_elapsed_test(ctx, f, b)
                if fl_ok:
                    yield ok("C17-T", key + "inc", at(f, s["span"]["line"]), txt[:160])
                else:
                    yield bad("C17-T", key + "inc", at(f, s["span"]["line"]), "the count is incremented outside the `elapsed >= timeout` test")
            else:
                yield bad("C17-T", key + "other", at(f, s["span"]["line"]), "Counter::%s writes the count as %s (accepted: 0 in new/reset, count+1 clamped to max_count in update)" % (f.name, txt[:160]))
    # reset must clear; restart must not
    if not any(True for _f, b, j, s, ps in field_writes([fns["reset"]], "self.count")):
        yield bad("C17-T", "Counter::reset:clears", at(fns["reset"]), "reset does not clear the expiration count: progress no longer resets the limit")
    else:
        yield ok("C17-T", "Counter::reset:clears", at(fns["reset"]), "writes count = 0")
    # limit_reached: result compares count with max_count, after update()
    f = fns["limit_reached"]
    eb = ExprBuilder(ctx.prog, f)
    rets = [expr_str(eb._def_expr(d, 0, (0,))) for d in f.defs(0) if d[0] in ("assign", "call")]
    if rets and all(re.match(r"^(Eq|Ge)\(self\.count, self\.max_count\)$", r) for r in rets):
        yield ok("C17-T", "Counter::limit_reached", at(f), rets[0])
    else:
        yield bad("C17-T", "Counter::limit_reached", at(f), "limit_reached returns %s, not count == max_count" % rets)
    for nm2 in ("limit_reached", "timeout_occurred"):
        g = fns[nm2]
        if any((ctx.prog.callee_of(t)[1] or ctx.prog.callee_of(t)[0] or "").endswith("Counter::update") for b, t in g.all_calls()):
            yield ok("C17-T", "Counter::%s:updates" % nm2, at(g), "evaluates elapsed time first")
        else:
            yield bad("C17-T", "Counter::%s:updates" % nm2, at(g), "%s does not account for elapsed time (update) before answering" % nm2)


def _under_elapsed_test(ctx, f, blk):
    """Every path to `blk` passed `now - start_time >= timeout` with value true."""

    def track(key):
        txt = " ".join(str(x) for x in key)
        return key[0] in ("call", "expr") and "duration_since" in txt and "start_time" in txt and "timeout" in txt

    fl = Flow(ctx.prog, ctx.mods, f, track)
    worlds = fl.inn.get(blk, frozenset())
    if not worlds:
        return False
    for w in worlds:
        good = False
        for k, (pos, s) in w:
            nm = k[1]
            is_ge = nm.endswith("::ge") or nm.startswith("Ge(")
            is_lt = nm.endswith("::lt") or nm.startswith("Lt(")
            if is_ge and pos and s == frozenset([1]):
                good = True
            if is_lt and pos and s == frozenset([0]):
                good = True
        if not good:
            return False
    return True


# ================================================================ C10-K4
class _NoCallKills:
    """Mod summaries that report no writes: used to follow the *dispatch decision* taken on a
    state field at the top of a function, not the field's current value."""

    def __init__(self, mods):
        self._m = mods

    def of(self, norm):
        return set()

    def _self_name(self, fn):
        return self._m._self_name(fn)


@rule("C10", "C10-K4", 2, "the Cancelled arm of the timeout dispatch never runs the fault handler at a limit (whose default action is to cancel again): it abandons", also=("C17",))
def c10_k4(ctx):
    from common import val_not

    for adt, nm, fld in ((RECV, "RecvTransaction", "self.recv_state"), (SEND, "SendTransaction", "self.send_state")):
        f = ctx.one("C10-K4", nm + "::handle_timeout")

        def track(key, fld=fld):
            return key[0] == "val" and key[1] == fld

        if any(True for _ in field_writes([f], fld)):
            yield undecided("C10-K4", "%s::handle_timeout:dispatch" % nm, at(f), "%s is assigned inside handle_timeout: the dispatch decision cannot be followed" % fld)
            continue
        fl = Flow(ctx.prog, _NoCallKills(ctx.mods), f, track)
        n = 0
        cnt = {}
        for f2, b, t, d, r in call_sites([f], ends(nm + "::handle_fault"), ctx.prog):
            n += 1
            e = ExprBuilder(ctx.prog, f).call(b, t)
            c = e[3][1][3] if len(e[3]) > 1 and e[3][1][0] == "agg" else "?"
            base = "%s::handle_timeout:handle_fault(%s)" % (nm, c)
            cnt[base] = cnt.get(base, 0) + 1
            key = base + ("#%d" % cnt[base] if cnt[base] > 1 else "")
            worlds = fl.at_term(b)
            good, w = all_worlds_satisfy(worlds, lambda dw: val_not(dw, fld, {"Cancelled"}))
            if good and worlds:
                yield ok("C10-K4", key, at(f, t["span"]["line"]), "not on the Cancelled arm of the dispatch")
            else:
                yield bad("C10-K4", key, at(f, t["span"]["line"]), "on the Cancelled arm of the timeout dispatch a limit runs the fault handler: with the default action (Cancel) the cancellation is restarted instead of abandoned and the transaction never ends (dispatch state %s)" % (world_str(w) if w is not None else "unreachable"))
        if n == 0:
            yield ok("C10-K4", "%s::handle_timeout:no-fault" % nm, at(f), "handle_timeout declares no fault", nontrivial=False)


# ================================================================ C17-H8
@rule("C17", "C17-H8", 2, "when a NAK goes out after new data arrived the NAK count is reset; it is merely restarted (count kept) only when nothing arrived since the previous NAK")
def c17_h8(ctx):
    f = ctx.one("C17-H8", "RecvTransaction::send_naks")

    def track(key):
        return key[0] == "expr" and "nak_received_file_size" in key[1] and "received_file_size" in key[1]

    fl = Flow(ctx.prog, ctx.mods, f, track)
    n = 0

    def same(dw, want):
        for k, (pos, s) in dw.items():
            if k[0] == "expr" and k[1].startswith("Eq(") and pos and s == frozenset([1 if want else 0]):
                return True
            if k[0] == "expr" and k[1].startswith("Ne(") and pos and s == frozenset([0 if want else 1]):
                return True
        return False

    for b, t in f.all_calls():
        d, r, _ = ctx.prog.callee_of(t)
        cal = (r or d or "").split("::")[-1]
        if cal not in ("restart_nak", "reset_nak"):
            continue
        n += 1
        worlds = fl.at_term(b)
        key = "RecvTransaction::send_naks:%s" % cal
        if cal == "restart_nak":
            good, w = all_worlds_satisfy(worlds, lambda dw: same(dw, True))
            if good and worlds:
                yield ok("C17-H8", key, at(f, t["span"]["line"]), "count kept only when no new data arrived since the last NAK")
            else:
                yield bad("C17-H8", key, at(f, t["span"]["line"]), "the NAK count is kept (restart) on a path where new data may have arrived since the previous NAK: progress no longer resets the limit count")
        else:
            good, w = all_worlds_satisfy(worlds, lambda dw: same(dw, False))
            if good and worlds:
                yield ok("C17-H8", key, at(f, t["span"]["line"]), "count cleared when new data arrived")
            else:
                yield bad("C17-H8", key, at(f, t["span"]["line"]), "the NAK count is cleared although nothing arrived since the previous NAK: the limit could never be reached")
    # the progress branch must reset: every path on which data arrived passes reset_nak
    resets = {b for b, t in f.all_calls() if (ctx.prog.callee_of(t)[1] or ctx.prog.callee_of(t)[0] or "").endswith("Timer::reset_nak")}
    for b in f.live_blocks():
        t = f.blocks[b]["term"]
        if t["k"] == "switch":
            e = expr_str(ExprBuilder(ctx.prog, f).operand(t["discr"]))
            if e.startswith("Eq(") and "nak_received_file_size" in e:
                ne_target = [tb for v, tb in t["targets"] if v == 0]
                if ne_target:
                    r2 = f.reachable(ne_target[0], avoid=resets)
                    if any(f.blocks[x]["term"]["k"] == "return" for x in r2):
                        yield bad("C17-H8", "RecvTransaction::send_naks:progress-resets", at(f, t["span"]["line"]), "on the 'new data arrived' edge a path returns without reset_nak()")
                    else:
                        yield ok("C17-H8", "RecvTransaction::send_naks:progress-resets", at(f, t["span"]["line"]), "every 'new data arrived' path passes reset_nak()")
    if n == 0:
        raise Anchor("C17-H8", "restart_nak / reset_nak in send_naks")


# ================================================================ C19-C
@rule("C19", "C19-C", 2, "the limit timers are only ever re-armed with a fresh start time (reset / restart); a bare start() - which would count the time spent suspended - is used only on a counter created in the same function", also=("C17",))
def c19_c(ctx):
    n = 0
    for adt, nm in TXNS:
        for f in impl_and_closures(ctx, adt):
            eb = ExprBuilder(ctx.prog, f, user_stop=True)
            for b, t in f.all_calls():
                d, r, _ = ctx.prog.callee_of(t)
                if not (r or d or "").endswith("Counter::start"):
                    continue
                n += 1
                e = eb.call(b, t)
                recv = expr_str(e[3][0]).replace("&mut ", "")
                key = "%s::%s:start(%s)" % (nm, f.name, recv)
                fresh = False
                if re.match(r"^\w+$", recv):
                    ds = [expr_str(x) for x in eb.var_defs(recv)]
                    fresh = bool(ds) and all(x.startswith("Counter::new(") for x in ds)
                if fresh:
                    yield ok("C19-C", key, at(f, t["span"]["line"]), "started right after Counter::new")
                else:
                    yield bad("C19-C", key, at(f, t["span"]["line"]), "Counter::start on %s un-pauses the counter with its old start time: the time spent paused (suspended) counts as elapsed expirations" % recv)
    if n == 0:
        raise Anchor("C19-C", "Counter::start call sites")


# ================================================================ C17-T2: timer wiring
@rule("C17", "C17-T2", 8, "each limit timer is built from the like-named configured timeout and limit, each Timer helper drives the like-named counter, and restart accounts for elapsed time before un-pausing", also=("C19",))
def c17_t2(ctx):
    from common import simp, sstr

    # (a) the transactions' Timer::new(..) calls: parameter X_timeout <- config.X_timeout, X_max_count <- config.max_count
    tn = ctx.one("C17-T2", "timer::Timer::new")
    params = [vn for vn, l, pj in sorted(tn.var_places, key=lambda x: x[1]) if not pj and 1 <= l <= tn.arg_count]
    for adt, nm in TXNS:
        fns = [f for f in impl_fns(ctx, adt) if f.name == "new"]
        n = 0
        for f in fns:
            eb = ExprBuilder(ctx.prog, f)
            for b, t in f.all_calls():
                if not (ctx.prog.callee_of(t)[1] or ctx.prog.callee_of(t)[0] or "").endswith("timer::Timer::new"):
                    continue
                n += 1
                e = simp(eb.call(b, t))
                problems = []
                for pn, a in zip(params, e[3]):
                    at_ = expr_str(a)
                    want = "config." + pn if pn.endswith("_timeout") else "config.max_count"
                    if at_ != want:
                        problems.append("%s <- %s (expected %s)" % (pn, at_, want))
                key = "%s::new:Timer::new" % nm
                if problems:
                    yield bad("C17-T2", key, at(f, t["span"]["line"]), "timer parameters cross-wired: " + "; ".join(problems))
                else:
                    yield ok("C17-T2", key, at(f, t["span"]["line"]), "six parameters wired to the like-named configuration fields")
        if n == 0:
            raise Anchor("C17-T2", nm + "::new -> Timer::new")
    # (b) Timer::new: field X <- Counter::new(from_secs(X_timeout), X_max_count)
    ebt = ExprBuilder(ctx.prog, tn)
    for _f, b, j, s in agg_sites([tn], "timer::Timer"):
        e = simp(ebt.rvalue(s["rv"]))
        for fld, v in zip(e[4], e[5]):
            txt = expr_str(v)
            want = "Counter::new(Duration::from_secs((%s_timeout as u64)), %s_max_count)" % (fld, fld)
            key = "Timer::new:%s" % fld
            if txt == want:
                yield ok("C17-T2", key, at(tn, s["span"]["line"]), want)
            else:
                yield bad("C17-T2", key, at(tn, s["span"]["line"]), "Timer.%s is built as %s (expected %s)" % (fld, txt[:160], want))
    # (c) helpers: restart_X / reset_X call self.X.restart / reset
    for f in impl_fns(ctx, "cfdp_daemon::timer::Timer"):
        m = re.match(r"^(restart|reset)_(\w+)$", f.name)
        if not m:
            continue
        ebf = ExprBuilder(ctx.prog, f)
        calls = [sstr(ebf.call(b, t)) for b, t in f.all_calls()]
        want = "Counter::%s(self.%s)" % (m.group(1), m.group(2))
        key = "Timer::%s" % f.name
        if calls == [want]:
            yield ok("C17-T2", key, at(f), want)
        else:
            yield bad("C17-T2", key, at(f), "Timer::%s does %s (expected %s)" % (f.name, calls, want))
    # (d) Counter::restart: update() runs while the counter is still marked paused/unpaused as before,
    #     i.e. before `paused = false`
    r = ctx.one("C17-T2", "timer::Counter::restart")
    upd = [b for b, t in r.all_calls() if (ctx.prog.callee_of(t)[1] or ctx.prog.callee_of(t)[0] or "").endswith("Counter::update")]
    unp = [b for _f, b, j, s, ps in field_writes([r], "self.paused")]
    # ... or a call to a Counter method that (transitively) writes `paused`
    cfns = impl_fns(ctx, COUNTER)
    writers = {g.norm for g in cfns if list(field_writes([g], "self.paused"))}
    for _ in range(3):
        for g in cfns:
            if g.norm not in writers and any((ctx.prog.callee_of(t)[1] or ctx.prog.callee_of(t)[0] or "") in writers for b, t in g.all_calls()):
                writers.add(g.norm)
    unp += [b for b, t in r.all_calls() if (ctx.prog.callee_of(t)[1] or ctx.prog.callee_of(t)[0] or "") in writers and b not in upd]
    if upd and unp and all(all(u in r.reachable(r.blocks[x]["term"]["target"]) or u == r.blocks[x]["term"]["target"] for u in unp) for x in upd) and not any(x in r.reachable(u) and x != u for u in unp for x in upd):
        yield ok("C17-T2", "Counter::restart:order", at(r), "update() before paused = false")
    elif upd and unp and all(u == x for u in unp for x in upd):
        # same block: the call terminator comes after the block's statements -> the write precedes the call
        yield bad("C17-T2", "Counter::restart:order", at(r), "restart un-pauses the counter before accounting for elapsed time: the time spent paused is counted as expirations")
    else:
        yield bad("C17-T2", "Counter::restart:order", at(r), "restart does not call update() before un-pausing (update blocks %s, un-pause blocks %s): the time spent paused is counted as expirations" % (upd, unp))


# ================================================================ C17-W2
@rule("C17", "C17-W2", 2, "timers are polled independently: an expiry (or limit) of one timer never hides the expiry of another - every poll of a timer is reachable from each outcome of every test on a different timer that precedes it")
def c17_w2(ctx):
    from core import dominators
    from common import sstr

    n = 0
    for adt, nm in TXNS:
        f = ctx.one("C17-W2", nm + "::handle_timeout")
        eb = ExprBuilder(ctx.prog, f)
        dom = dominators(f)
        polls = []  # (block, timer)
        for b, t in f.all_calls():
            e = eb.call(b, t)
            if e[0] != "call":
                continue
            cal = callee_name(e) or ""
            if cal.startswith("cfdp_daemon::timer::Counter::") and cal.split("::")[-1] in ("timeout_occurred", "limit_reached") and e[3]:
                m = re.match(r"^self\.timer\.(\w+)$", sstr(e[3][0]))
                if m:
                    polls.append((b, m.group(1), t["span"]["line"]))
        tests = []  # (switch block, timer)
        for sb in f.live_blocks():
            st = f.blocks[sb]["term"]
            if st["k"] != "switch":
                continue
            d = eb.operand(st["discr"])
            while d[0] == "unop" and d[1] == "Not":
                d = d[2]
            if d[0] == "call" and (callee_name(d) or "").startswith("cfdp_daemon::timer::Counter::") and d[3]:
                m = re.match(r"^self\.timer\.(\w+)$", sstr(d[3][0]))
                if m:
                    tests.append((sb, m.group(1)))
        if not polls:
            raise Anchor("C17-W2", "timer polls in %s::handle_timeout" % nm)
        cnt = {}
        for pb, tb, line in polls:
            hidden = []
            for sb, ta in tests:
                if ta == tb or sb not in dom.get(pb, ()) or sb == pb:
                    continue
                for s_, _lab in f.succs(sb):
                    if pb not in f.reachable(s_):
                        hidden.append((ta, f.blocks[sb]["term"]["span"]["line"]))
                        break
            n += 1
            base = "%s::handle_timeout:poll(%s)" % (nm, tb)
            cnt[base] = cnt.get(base, 0) + 1
            key = base + ("#%d" % cnt[base] if cnt[base] > 1 else "")
            if hidden:
                yield bad("C17-W2", key, at(f, line), "the %s timer is only looked at on one outcome of the test on the %s timer (L%d): while that timer sits at its limit (or has expired) an expiry of the %s timer is never seen - its PDU is not retransmitted and its limit fault is never declared" % (tb, hidden[0][0], hidden[0][1], tb))
            else:
                yield ok("C17-W2", key, at(f, line), "reachable from every outcome of the tests on other timers")
    if n == 0:
        raise Anchor("C17-W2", "timer polls")


# ================================================================ C17-H11 / C17-W3
@rule("C17", "C17-H11", 2, "a limit reached outside the Cancelled phase is declared through the fault handler: the timeout dispatch abandons directly only in the Cancelled phase (where running the handler again could cancel once more)", also=("C10",))
def c17_h11(ctx):
    n = 0
    for adt, nm in TXNS:
        f = ctx.one("C17-H11", nm + "::handle_timeout")
        field = "self.recv_state" if adt == RECV else "self.send_state"
        fl = Flow(ctx.prog, ctx.mods, f, lambda k: k[0] == "val" and k[1] == field)
        cnt = 0
        for b, t in f.all_calls():
            d, r, _ = ctx.prog.callee_of(t)
            if not (r or d or "").endswith(nm + "::abandon"):
                continue
            n += 1
            cnt += 1
            key = "%s::handle_timeout:abandon" % nm + ("#%d" % cnt if cnt > 1 else "")
            ws = [dict(w) for w in fl.at_term(b)]
            tyname = [f.locals[1]["ty"]]
            universe = set()
            for g in ctx.prog.adts if hasattr(ctx.prog, "adts") else ():
                pass
            vn = ctx.prog.variant_names("cfdp_daemon::transaction::recv::RecvState" if adt == RECV else "cfdp_daemon::transaction::send::SendState") or {}
            universe = set(vn.values())

            def only_cancelled(v):
                if v is None:
                    return False
                if v[0]:
                    return set(v[1]) == {"Cancelled"}
                return bool(universe) and (universe - set(v[1])) == {"Cancelled"}

            good = bool(ws) and all(only_cancelled(w.get(("val", field))) for w in ws)
            if good:
                yield ok("C17-H11", key, at(f, t["span"]["line"]), "abandon under %s == Cancelled" % field)
            else:
                yield bad("C17-H11", key, at(f, t["span"]["line"]), "the timeout dispatch abandons the transaction in a phase that may not be Cancelled: the limit fault is never declared and the handler configured for it (cancel, suspend, ignore) never runs")
    if n == 0:
        raise Anchor("C17-H11", "abandon() in the timeout dispatch")


@rule("C17", "C17-W3", 2, "a PDU is marked for retransmission only because its own ACK timer expired: the pending flag of the EOF (sender) / Finished (receiver) is set to true only in the timeout dispatch under that timer's timeout_occurred(), or where the PDU is first prepared")
def c17_w3(ctx):
    n = 0
    for adt, nm, setter in ((SEND, "SendTransaction", "set_eof_flag"), (RECV, "RecvTransaction", "set_finished_flag")):
        fns = impl_fns(ctx, adt)
        cnt = {}
        for f in fns:
            fl = None
            for b, t in f.all_calls():
                d, r, _ = ctx.prog.callee_of(t)
                if not (r or d or "").endswith("%s::%s" % (nm, setter)):
                    continue
                e = ExprBuilder(ctx.prog, f).call(b, t)
                a = e[3][1] if e[0] == "call" and len(e[3]) > 1 else None
                if a is not None and a[0] == "const" and a[1] in (0, False):
                    continue  # clearing the flag (checked by C10-K7 / the send functions)
                n += 1
                base = "%s::%s:%s(true)" % (nm, f.name, setter)
                cnt[base] = cnt.get(base, 0) + 1
                key = base + ("#%d" % cnt[base] if cnt[base] > 1 else "")
                # dominated by the true edge of `self.timer.ack.timeout_occurred()` (the limit test that follows
                # it polls the same counter, so this is a matter of control structure, not of a surviving fact)
                from core import dominators
                dom = dominators(f)
                ebx = ExprBuilder(ctx.prog, f)
                good = False
                if f.name == "handle_timeout":
                    for sb in f.live_blocks():
                        st_ = f.blocks[sb]["term"]
                        if st_["k"] != "switch":
                            continue
                        de = ebx.operand(st_["discr"])
                        neg = False
                        while de[0] == "unop" and de[1] == "Not":
                            de = de[2]
                            neg = not neg
                        if de[0] == "call" and (callee_name(de) or "").endswith("Counter::timeout_occurred") and de[3] and "self.timer.ack" in expr_str(de[3][0]):
                            zero = [tb for v, tb in st_["targets"] if v == 0]
                            true_t = (zero[0] if zero else None) if neg else st_["otherwise"]
                            false_t = st_["otherwise"] if neg else (zero[0] if zero else None)
                            if true_t is not None and true_t != false_t and (true_t == b or true_t in dom.get(b, ())):
                                good = True
                            elif true_t is not None and true_t != false_t:
                                # ... or through a verdict built per path (`Some(..)` only after the timer expired, `None`
                                # otherwise): the site holds that verdict's variant, and every place that builds that
                                # variant lies on the expired edge
                                if fl is None:
                                    fl = Flow(ctx.prog, ctx.mods, f, lambda k: False)
                                ws = [dict(w) for w in fl.at_term(b)]
                                cands = None
                                for w in ws:
                                    here = {(k[1], list(v[1])[0]) for k, v in w.items() if k[0] == "val" and re.match(r"^_\d+$", k[1]) and v[0] and len(v[1]) == 1 and isinstance(list(v[1])[0], str)}
                                    cands = here if cands is None else (cands & here)
                                for nm_, var_ in sorted(cands or ()):
                                    l_ = int(nm_[1:])
                                    defs_ = [d_ for d_ in f.defs(l_) if d_[0] == "assign" and d_[3]["k"] == "agg" and d_[3].get("variant") == var_]
                                    if defs_ and all(true_t == d_[1] or true_t in dom.get(d_[1], ()) for d_ in defs_):
                                        good = True
                if good:
                    yield ok("C17-W3", key, at(f, t["span"]["line"]), "under timer.ack.timeout_occurred()")
                else:
                    yield bad("C17-W3", key, at(f, t["span"]["line"]), "%s marks the PDU for retransmission without its ACK timer having expired: a retransmission no expiration caused goes out, re-arms the ACK timer and counts towards a limit fault for a PDU that may already be acknowledged" % f.name)
    if n == 0:
        raise Anchor("C17-W3", "set_eof_flag(true) / set_finished_flag(true)")
