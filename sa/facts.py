"""Fact extraction orchestration: run the rustc_private driver over /repo's current
working tree (or a scratch copy) and cache the JSON facts by content hash."""
import fcntl
import hashlib
import json
import os
import shutil
import subprocess
import sys
import time

VERIF = os.path.dirname(os.path.dirname(os.path.abspath(__file__)))
REPO = os.environ.get("CFDP_SA_REPO", "/repo")
CACHE = os.path.join(VERIF, ".cache")
DRIVER_DIR = os.path.join(VERIF, "driver")
DRIVER = os.path.join(DRIVER_DIR, "target", "debug", "cfdp-sa-driver")
MEMBERS = ("cfdp-core", "cfdp-daemon")
CRATES = ("cfdp_core", "cfdp_daemon")


def _run(cmd, **kw):
    return subprocess.run(cmd, stdout=subprocess.PIPE, stderr=subprocess.STDOUT, text=True, **kw)


def sysroot():
    r = _run(["rustc", "+nightly", "--print", "sysroot"])
    if r.returncode != 0:
        raise RuntimeError("nightly toolchain missing: " + r.stdout)
    return r.stdout.strip()


def ensure_driver():
    src = os.path.join(DRIVER_DIR, "src", "main.rs")
    if os.path.exists(DRIVER) and os.path.getmtime(DRIVER) >= os.path.getmtime(src):
        return
    os.makedirs(CACHE, exist_ok=True)
    with open(os.path.join(CACHE, "driver.lock"), "w") as lk:
        fcntl.flock(lk, fcntl.LOCK_EX)
        if os.path.exists(DRIVER) and os.path.getmtime(DRIVER) >= os.path.getmtime(src):
            return
        env = dict(os.environ, CARGO_NET_OFFLINE="true")
        env.pop("RUSTC_WORKSPACE_WRAPPER", None)
        env.pop("RUSTFLAGS", None)
        r = _run(["cargo", "+nightly", "build", "--offline"], cwd=DRIVER_DIR, env=env)
        if r.returncode != 0 or not os.path.exists(DRIVER):
            raise RuntimeError("driver build failed:\n" + r.stdout)


def tree_hash(repo):
    h = hashlib.sha256()
    files = []
    for top in MEMBERS:
        for dp, dn, fn in os.walk(os.path.join(repo, top)):
            dn[:] = sorted(d for d in dn if d != "target" and not d.startswith("."))
            for f in sorted(fn):
                files.append(os.path.join(dp, f))
    for f in ("Cargo.toml", "Cargo.lock"):
        files.append(os.path.join(repo, f))
    for f in sorted(files):
        try:
            with open(f, "rb") as fh:
                data = fh.read()
        except OSError:
            continue
        h.update(os.path.relpath(f, repo).encode())
        h.update(b"\0")
        h.update(hashlib.sha256(data).digest())
    with open(os.path.join(DRIVER_DIR, "src", "main.rs"), "rb") as fh:
        h.update(hashlib.sha256(fh.read()).digest())
    return h.hexdigest()[:20]


PROFILES = {
    # the real dev/test profile: overflow checks and debug assertions on
    "dev": "-Zmir-opt-level=0 -Awarnings",
    # release-like profile: what Assert terminators survive without overflow checks
    "rel": "-Zmir-opt-level=0 -Awarnings -C overflow-checks=off -C debug-assertions=off",
}


def extract(repo=None, profile="dev", target_tag="main"):
    """Return {crate: facts-dict} for the tree at `repo`. Cached per content hash.
    Safe against concurrent checks: a cache entry is touched when used, only entries unused for a
    while are collected, and a reader that still loses the race extracts again."""
    repo = repo or REPO
    ensure_driver()
    th = tree_hash(repo)
    out = os.path.join(CACHE, "facts", "%s-%s" % (th, profile))
    os.makedirs(os.path.join(CACHE, "facts"), exist_ok=True)
    lock_path = os.path.join(CACHE, "facts", "extract-%s.lock" % target_tag)
    last = None
    for _attempt in range(3):
        with open(lock_path, "w") as lk:
            fcntl.flock(lk, fcntl.LOCK_EX)
            if not all(os.path.exists(os.path.join(out, c + ".json")) for c in CRATES):
                _do_extract(repo, profile, target_tag, out)
                _gc(protect=out)
            try:
                os.utime(out, None)
            except OSError:
                pass
        try:
            facts = {}
            for c in CRATES:
                with open(os.path.join(out, c + ".json")) as fh:
                    facts[c] = json.load(fh)
            return facts, th
        except (FileNotFoundError, json.JSONDecodeError) as e:
            last = e  # collected by a concurrent run between the check and the read: extract again
    raise RuntimeError("fact cache entry %s kept disappearing: %s" % (out, last))


def _gc(keep=12, protect=None, min_age_s=900):
    d = os.path.join(CACHE, "facts")
    now = time.time()
    ents = [os.path.join(d, e) for e in os.listdir(d) if os.path.isdir(os.path.join(d, e)) and ".tmp" not in e]
    ents.sort(key=lambda p: os.path.getmtime(p) if os.path.exists(p) else 0, reverse=True)
    for p in ents[keep:]:
        try:
            if p == protect or now - os.path.getmtime(p) < min_age_s:
                continue
        except OSError:
            continue
        shutil.rmtree(p, ignore_errors=True)


def _do_extract(repo, profile, target_tag, out):
    tmp = out + ".tmp%d" % os.getpid()
    shutil.rmtree(tmp, ignore_errors=True)
    os.makedirs(tmp)
    target = os.path.join(CACHE, "target-%s-%s" % (target_tag, profile))
    # cargo's freshness cache would skip the wrapper and replay old output:
    # drop the workspace members' fingerprints so they are always re-checked.
    fp = os.path.join(target, "debug", ".fingerprint")
    if os.path.isdir(fp):
        for e in os.listdir(fp):
            if e.startswith("cfdp-core-") or e.startswith("cfdp-daemon-"):
                shutil.rmtree(os.path.join(fp, e), ignore_errors=True)
    nonce = "%d-%d" % (os.getpid(), time.time_ns())
    env = dict(os.environ)
    env.update(
        LD_LIBRARY_PATH=os.path.join(sysroot(), "lib"),
        RUSTFLAGS=PROFILES[profile],
        RUSTC_WORKSPACE_WRAPPER=DRIVER,
        CARGO_TARGET_DIR=target,
        CARGO_NET_OFFLINE="true",
        CFDP_SA_OUT=tmp,
        CFDP_SA_NONCE=nonce,
    )
    env.pop("RUSTC_WRAPPER", None)
    r = _run(
        ["cargo", "+nightly", "check", "--offline", "--workspace", "--lib", "-q"],
        cwd=repo,
        env=env,
    )
    if r.returncode != 0:
        shutil.rmtree(tmp, ignore_errors=True)
        raise RuntimeError("fact extraction: cargo check failed on %s\n%s" % (repo, r.stdout[-4000:]))
    for c in CRATES:
        p = os.path.join(tmp, c + ".json")
        if not os.path.exists(p):
            raise RuntimeError("fact extraction: no facts for %s (wrapper skipped?)" % c)
        with open(p) as fh:
            head = fh.read(200)
        if nonce not in head:
            raise RuntimeError("fact extraction: stale facts for %s (nonce mismatch)" % c)
    shutil.rmtree(out, ignore_errors=True)
    os.rename(tmp, out)


def extract_fixture(name="controls"):
    """Facts of the positive-control crate /verif/fixtures/<name> (same driver, same flags)."""
    ensure_driver()
    d = os.path.join(VERIF, "fixtures", name)
    h = hashlib.sha256()
    for dp, dn, fn in os.walk(d):
        dn[:] = sorted(x for x in dn if x != "target")
        for f in sorted(fn):
            with open(os.path.join(dp, f), "rb") as fh:
                h.update(f.encode() + b"\0" + fh.read())
    with open(os.path.join(DRIVER_DIR, "src", "main.rs"), "rb") as fh:
        h.update(hashlib.sha256(fh.read()).digest())
    th = h.hexdigest()[:16]
    out = os.path.join(CACHE, "facts", "fixture-%s-%s" % (name, th))
    os.makedirs(os.path.join(CACHE, "facts"), exist_ok=True)
    with open(os.path.join(CACHE, "facts", "extract-fixture.lock"), "w") as lk:
        fcntl.flock(lk, fcntl.LOCK_EX)
        if not os.path.exists(os.path.join(out, name + ".json")):
            tmp = out + ".tmp%d" % os.getpid()
            shutil.rmtree(tmp, ignore_errors=True)
            os.makedirs(tmp)
            target = os.path.join(CACHE, "target-fixture-" + name)
            shutil.rmtree(os.path.join(target, "debug", ".fingerprint"), ignore_errors=True)
            nonce = "%d-%d" % (os.getpid(), time.time_ns())
            env = dict(os.environ)
            env.update(LD_LIBRARY_PATH=os.path.join(sysroot(), "lib"), RUSTFLAGS=PROFILES["dev"], RUSTC_WORKSPACE_WRAPPER=DRIVER, CARGO_TARGET_DIR=target, CARGO_NET_OFFLINE="true", CFDP_SA_OUT=tmp, CFDP_SA_NONCE=nonce)
            env.pop("RUSTC_WRAPPER", None)
            r = _run(["cargo", "+nightly", "check", "--offline", "--lib", "-q"], cwd=d, env=env)
            if r.returncode != 0 or not os.path.exists(os.path.join(tmp, name + ".json")):
                shutil.rmtree(tmp, ignore_errors=True)
                raise RuntimeError("positive-control extraction failed:\n" + r.stdout[-2000:])
            shutil.rmtree(out, ignore_errors=True)
            os.rename(tmp, out)
    with open(os.path.join(out, name + ".json")) as fh:
        return {name: json.load(fh)}


if __name__ == "__main__":
    t = time.time()
    f, th = extract(profile=sys.argv[1] if len(sys.argv) > 1 else "dev")
    print(th, {c: len(v["bodies"]) for c, v in f.items()}, "%.1fs" % (time.time() - t))
