"""C07, C08, C09, C11, C12, C13-Q1, C14, C16, C17, C20."""
import re

from core import ExprBuilder, callee_name, expr_str, short, strip_generics, walk, places_in, calls_in, is_transparent, dominators
from df import Flow, world_str
from engine import rule, ok, bad, undecided, at, Anchor
from common import (
    RECV,
    SEND,
    impl_fns,
    impl_and_closures,
    inter,
    call_sites,
    ends,
    agg_sites,
    field_writes,
    all_worlds_satisfy,
    val_in,
    val_not,
    call_key,
    backslice,
    local_uses,
    flows_to_place,
)


# ================================================================ C16
@rule("C16", "C16-D", 1, "the byte count returned by the socket receive flows into the bound of what is handed to the decoder")
def c16_d(ctx):
    fns = [f for f in ctx.prog.by_norm.values() if f.crate == "cfdp_daemon" and "PDUTransport>::receive" in f.norm]
    n = 0
    for f in fns:
        for b, t in f.all_calls():
            d, r, _ = ctx.prog.callee_of(t)
            if not (d or "").endswith("PDUEncode::decode"):
                continue
            n += 1
            eb = ExprBuilder(ctx.prog, f)
            e = eb.call(b, t)
            calls, places, nodes = backslice(ctx.prog, f, e[3][0])
            recv = [c for c in calls if re.search(r"::(recv_from|recv|peek_from|recv_buf_from|try_recv_from)$", callee_name(c) or "")]
            # the count: a usize projected out of the receive's result must be in the slice
            count = [x for x in nodes if x[0] == "proj" and x[3] == "usize" and any(re.search(r"::(recv_from|recv)(::\{closure#0\})?$", callee_name(c) or "") for c in calls_in(x))]
            key = "%s->PDU::decode" % short(f.root or f.norm)
            if recv and count:
                # the window handed to the decoder must be bounded above by the count itself
                from common import simp, sstr

                ebu = ExprBuilder(ctx.prog, f, user_stop=True)
                win = simp(ebu.call(b, t)[3][0])
                wins = [win]
                if win[0] == "place" and re.match(r"^\w+$", win[1]):
                    # the window was given a name (`let mut datagram = &buf[..n]`): every definition counts
                    wins = [simp(d) for d in ebu.var_defs(win[1])] or [win]
                bound = None
                inclusive = False
                for x in [y for w_ in wins for y in walk(w_)]:
                    if x[0] == "agg" and x[2].endswith(("ops::RangeToInclusive", "ops::RangeInclusive")) and x[5]:
                        inclusive = True  # `..=k` takes k + 1 bytes: one more than the bound
                    if x[0] == "agg" and x[2].endswith(("ops::RangeTo", "ops::Range", "ops::RangeToInclusive")) and x[5]:
                        bound = x[5][-1]
                    elif x[0] == "call" and (callee_name(x) or "").split("::")[-1] in ("take", "split_at", "truncate") and len(x[3]) > 1:
                        bound = x[3][1]
                cnt_names = set()
                for vn, l, pj in f.var_places:
                    if not pj and f.locals[l]["ty"] == "usize":
                        ebfull = ExprBuilder(ctx.prog, f)
                        ds = [sstr(d) for d in ebfull.var_defs(vn)]
                        for _ in range(4):
                            nxt = []
                            for d in ds:
                                m = re.match(r"^(\w+)(?:@Ok\.0)?((\.\d+)*)$", d)
                                if m and m.group(1) != vn:
                                    nxt.extend(sstr(x) + m.group(2) for x in ebfull.var_defs(m.group(1)))
                                else:
                                    nxt.append(d)
                            ds = nxt
                        if ds and all(re.search(r"(recv_from|::recv|peek_from)\(.*\)\.0$", d) for d in ds):
                            cnt_names.add(vn)
                bt = expr_str(simp(bound)) if bound is not None else None
                okb = False
                if bt is not None:
                    if bt in cnt_names:
                        okb = True
                    elif bound[0] == "call" and (callee_name(bound) or "").split("::")[-1] == "min" and any(expr_str(simp(a)) in cnt_names for a in bound[3]):
                        okb = True
                if okb and inclusive:
                    yield bad("C16-D", key, at(f, t["span"]["line"]), "the window handed to the decoder is an inclusive range ending at %s: it holds one byte more than were received - the byte an earlier datagram left behind it" % bt)
                elif okb:
                    yield ok("C16-D", key, at(f, t["span"]["line"]), {"decoder_input": expr_str(win)[:200], "bound": bt})
                else:
                    yield bad("C16-D", key, at(f, t["span"]["line"]), "the window handed to the decoder ends at %s, which is not the received byte count (or a minimum with it): bytes left by an earlier datagram can be decoded" % (bt or expr_str(win)[:160]))
            else:
                yield bad("C16-D", key, at(f, t["span"]["line"]), "the decoder's input %s does not depend on the byte count returned by the socket receive (stale buffer bytes can complete a truncated datagram)" % expr_str(e[3][0])[:200])
    if n == 0:
        raise Anchor("C16-D", "PDU::decode call inside an impl of PDUTransport::receive")


# ================================================================ C09
@rule("C09", "C09-G1", 4, "every overlap count returned by the coalescing helper reaches the new-bytes result of the insert operation", also=("C20",))
def c09_g1(ctx):
    f = ctx.one("C09-G1", "segments::Segments::merge")
    helper = ctx.one("C09-G1", "segments::merge")
    eb = ExprBuilder(ctx.prog, f, user_stop=True)
    ret = [expr_str(eb._def_expr(d, 0, (0,))) for d in f.defs(0) if d[0] in ("assign", "call")]
    # the returned variable(s)
    ret_vars = [r for r in ret if re.match(r"^[A-Za-z_][A-Za-z0-9_]*$", r)]
    n = 0
    for b, t in f.all_calls():
        d, r, _ = ctx.prog.callee_of(t)
        if (r or d) != helper.norm:
            continue
        n += 1
        key = "Segments::merge:site#%d" % n
        dest = t["dest"]
        if dest["proj"]:
            yield undecided("C09-G1", key, at(f, t["span"]["line"]), "overlap stored into a projection")
            continue
        flows = any(flows_to_place(f, dest["local"], rv) for rv in ret_vars) or flows_to_place(f, dest["local"], "_0")
        if flows:
            yield ok("C09-G1", key, at(f, t["span"]["line"]), "overlap count flows into %s" % ret_vars)
        else:
            yield bad("C09-G1", key, at(f, t["span"]["line"]), "the overlap returned by merge(v, k) is dropped: the bytes it counts are reported as newly received although already held")
    if n == 0:
        raise Anchor("C09-G1", "calls of segments::merge in Segments::merge")


@rule("C09", "C09-G2", 1, "the completeness test depends on where the first held range starts (and can be true for an empty list only when the size is 0)", also=("C01", "C08", "C18"))
def c09_g2(ctx):
    f = ctx.one("C09-G2", "segments::Segments::is_complete")
    fns = [f] + ctx.prog.closures_of(f)
    reads_start = []
    for g in fns:
        eb = ExprBuilder(ctx.prog, g)
        exprs = []
        for b in g.live_blocks():
            blk = g.blocks[b]
            for s in blk["stmts"]:
                if s["k"] == "assign":
                    exprs.append((s["span"]["line"], eb.rvalue(s["rv"])))
            t = blk["term"]
            if t["k"] == "switch":
                exprs.append((t["span"]["line"], eb.operand(t["discr"])))
            elif t["k"] == "call":
                exprs.append((t["span"]["line"], eb.call(b, t)))
        for line, e in exprs:
            for x in walk(e):
                # a whole range compared with a pair built from a constant start: `held[0] == (0, size)`
                if x[0] == "call" and (callee_name(x) or "").split("::")[-1] in ("eq", "ne") and len(x[3]) == 2:
                    sides = [a for a in x[3]]
                    def _peel(a):
                        while a[0] == "ref":
                            a = a[2]
                        return a
                    pa, pb = _peel(sides[0]), _peel(sides[1])
                    for el, tup in ((pa, pb), (pb, pa)):
                        if tup[0] == "agg" and tup[1] == "tuple" and len(tup[5]) == 2 and tup[5][0][0] == "const" and re.search(r"(\]|\*|index\(.*\)|first\(.*\))", expr_str(el)):
                            reads_start.append((line, expr_str(x)[:160]))
                if x[0] in ("binop",) and x[1] in ("Eq", "Ne", "Lt", "Le", "Gt", "Ge"):
                    for side in (x[2], x[3]):
                        for y in walk(side):
                            s = y[1] if y[0] == "place" else (expr_str(y) if y[0] == "proj" else "")
                            ty = y[2] if y[0] == "place" else (y[3] if y[0] == "proj" else "")
                            if isinstance(s, str) and re.search(r"(\]|\*)\)*\.0$", s) and ty == "u64":
                                reads_start.append((line, expr_str(x)[:160]))
    if reads_start:
        yield ok("C09-G2", "Segments::is_complete:start", at(f, reads_start[0][0]), {"comparisons_on_a_start_offset": reads_start[:3]})
    else:
        yield bad("C09-G2", "Segments::is_complete:start", at(f), "is_complete never compares the start offset (tuple field 0) of a held range: data starting at a non-zero offset cannot be told from data starting at 0")


# ================================================================ C12
FS_SINKS = (
    "std::fs::",
    "tokio::fs::",
    "camino::Utf8Path::exists",
    "camino::Utf8Path::is_file",
    "camino::Utf8Path::is_dir",
    "camino::Utf8Path::metadata",
    "camino::Utf8Path::read_dir",
    "camino::Utf8Path::symlink_metadata",
    "camino::Utf8Path::canonicalize",
    "camino::Utf8Path::try_exists",
    "std::path::Path::exists",
    "std::path::Path::is_file",
    "std::path::Path::is_dir",
    "tempfile::",
)
FS_NOT_PATH = (
    "std::fs::File::options",
    "std::fs::File::sync_all",
    "std::fs::File::sync_data",
    "std::fs::File::metadata",
    "std::fs::OpenOptions::new",
    "std::fs::OpenOptions::read",
    "std::fs::OpenOptions::write",
    "std::fs::OpenOptions::append",
    "std::fs::OpenOptions::truncate",
    "std::fs::OpenOptions::create",
    "std::fs::OpenOptions::create_new",
    "std::fs::Metadata::len",
    "std::fs::Metadata::modified",
    "std::fs::Metadata::is_dir",
    "std::fs::Metadata::is_file",
    "std::fs::DirEntry::path",
    "std::fs::DirEntry::metadata",
    "std::fs::DirEntry::file_name",
    "tempfile::tempfile",
)


def _is_fs_sink(nm):
    return nm.startswith(FS_SINKS) and nm not in FS_NOT_PATH


@rule("C12", "C12-R1", 1, "every native path is root.join(normalize(name)): no pass-through branch")
def c12_r1(ctx):
    fs = [f for f in ctx.prog.by_norm.values() if f.name == "get_native_path" and f.impl_trait and f.impl_trait.endswith("FileStore") and f.crate == "cfdp_core"]
    if not fs:
        raise Anchor("C12-R1", "impl FileStore::get_native_path")
    for f in fs:
        eb = ExprBuilder(ctx.prog, f)
        defs = [d for d in f.defs(0) if d[0] in ("assign", "call")]
        exprs = []
        for d in defs:
            e = eb._def_expr(d, 0, (0,))
            exprs.extend(e[2] if e[0] == "phi" else [e])
        who = short(f.impl_self_adt or f.norm)
        for i, e in enumerate(exprs):
            key = "%s::get_native_path:return#%d" % (who, i + 1)
            good = False
            if e[0] == "call" and (callee_name(e) or "").endswith("Utf8Path::join") and len(e[3]) == 2:
                a0 = places_in(e[3][0])
                a1 = e[3][1]
                while a1[0] == "ref" or (a1[0] == "call" and is_transparent(a1) and a1[3]):
                    a1 = a1[2] if a1[0] == "ref" else a1[3][0]
                if a0 == ["self.root_path"] and a1[0] == "call" and (callee_name(a1) or "").endswith("filestore::normalize_path"):
                    good = True
            if good:
                yield ok("C12-R1", key, at(f), expr_str(e)[:240])
            else:
                yield bad("C12-R1", key, at(f), "get_native_path can return %s, which is not root_path.join(normalize_path(..))" % expr_str(e)[:240])


PATH_EDITS = ("with_extension", "with_file_name", "set_extension", "set_file_name", "join", "push", "pop", "parent", "ancestors", "with_added_extension")


def _unsanitised_leaves(prog, fn, e, params):
    """Parameter places reachable in the backward slice of e without passing
    through a get_native_path call; a sanitised path that is edited afterwards
    (`native.with_extension(..)`, `.parent()`, `.join(..)`) is reported as `edited:<api>`:
    the edit can step out of the root again."""
    eb = ExprBuilder(prog, fn)
    names = {vn: l for vn, l, proj in fn.var_places if not proj}
    out = []
    seen = set()
    st = [e]
    while st:
        x = st.pop()
        k = x[0]
        if k == "call":
            nm = callee_name(x) or ""
            if nm.endswith("::get_native_path"):
                continue  # sanitised subtree
            if nm.split("::")[-1] in PATH_EDITS and ("Path" in nm) and nm.startswith(("camino::", "std::path::")):
                out.append("edited:" + nm.split("::")[-1])
            st.extend(x[3])
        elif k == "place":
            root = x[1]
            for ch in ".@[":
                root = root.split(ch)[0]
            if root in params:
                out.append(x[1])
            elif root in names and root not in seen:
                seen.add(root)
                # a path buffer edited in place (push / pop / set_file_name ..) after - or instead of - being sanitised
                for b2, t2 in fn.all_calls():
                    d2, r2, _ = prog.callee_of(t2)
                    nm2 = r2 or d2 or ""
                    if nm2.split("::")[-1] in ("push", "pop", "set_file_name", "set_extension", "extend") and "Path" in nm2 and nm2.startswith(("camino::", "std::path::")):
                        e2 = eb.call(b2, t2)
                        if e2[3]:
                            rcv = e2[3][0]
                            while rcv[0] == "ref":
                                rcv = rcv[2]
                            if rcv[0] == "place" and rcv[1] == root:
                                out.append("edited-in-place:" + nm2.split("::")[-1])
                for d in fn.defs(names[root]):
                    if d[0] in ("assign", "call"):
                        st.append(eb._def_expr(d, 0, (names[root],)))
        elif k == "phi":
            st.extend(x[2])
        elif k == "agg":
            st.extend(x[5])
        elif k in ("fn", "const", "uneval", "cycle", "yield", "other"):
            pass
        else:
            st.extend(y for y in x[1:] if isinstance(y, tuple) and y)
    return out


@rule("C12", "C12-R2", 15, "every path handed to a filesystem API by the native filestore (and by the trait's process_request) is a get_native_path result")
def c12_r2(ctx):
    fns = [f for f in ctx.prog.by_norm.values() if f.crate == "cfdp_core" and ((f.impl_trait or "").endswith("filestore::FileStore") or (f.in_trait or "").endswith("filestore::FileStore"))]
    if not fns:
        raise Anchor("C12-R2", "impl FileStore for NativeFileStore")
    # inherent helpers of the native filestore reach the filesystem with the same rights as the trait methods
    seen_ = {f.norm for f in fns}
    fns = fns + [f for f in ctx.prog.by_norm.values() if f.crate == "cfdp_core" and f.kind != "Closure" and "filestore::NativeFileStore::" in f.norm and f.norm not in seen_ and f.name != "new"]
    allf = []
    for f in fns:
        allf.append(f)
        allf.extend(ctx.prog.closures_of(f))
    counts = {}
    for f in allf:
        if f.name == "get_native_path":
            continue
        params = set()
        root_fn = ctx.prog.by_norm.get(f.root) if f.root else f
        for vn, l, proj in f.var_places:
            if not proj and 1 <= l <= f.arg_count and vn != "self":
                params.add(vn)
        is_closure = f.kind == "Closure"
        for b, t in f.all_calls():
            d, r, _ = ctx.prog.callee_of(t)
            nm = r or d or ""
            if not (_is_fs_sink(nm) or _is_fs_sink(d or "")):
                continue
            eb = ExprBuilder(ctx.prog, f)
            e = eb.call(b, t)
            base = "%s->%s" % (short(f.root or f.norm) if is_closure else short(f.norm), nm.split("::")[-2] + "::" + nm.split("::")[-1])
            counts[base] = counts.get(base, 0) + 1
            key = base + ("#%d" % counts[base] if counts[base] > 1 else "")
            leaks = []
            for a, raw in zip(e[3], t["args"]):
                aty = raw["place"]["ty"] if raw.get("k") in ("copy", "move") else raw.get("ty", "")
                if "OpenOptions" in aty:
                    continue  # the builder receiver, not a path
                leaks.extend(_unsanitised_leaves(ctx.prog, f, a, params))
            # closure parameters in list_directory are DirEntry values produced by read_dir(p)
            if is_closure and leaks:
                ty_ok = all("DirEntry" in (f.locals[l]["ty"]) for vn, l, proj in f.var_places if vn in {x.split(".")[0] for x in leaks} and not proj)
                if ty_ok:
                    leaks = []
            if leaks:
                yield bad("C12-R2", key, at(f, t["span"]["line"]), "filesystem call %s receives %s which did not pass through get_native_path" % (nm, sorted(set(leaks))))
            else:
                yield ok("C12-R2", key, at(f, t["span"]["line"]), expr_str(e)[:200])


@rule("C12", "C12-R3", 3, "the lexical normaliser's accumulator is only extended by Normal components and shortened by pop")
def c12_r3(ctx):
    f = ctx.one("C12-R3", "filestore::normalize_path")
    eb = ExprBuilder(ctx.prog, f)
    # the returned accumulator
    rets = [eb._def_expr(d, 0, (0,)) for d in f.defs(0) if d[0] in ("assign", "call")]
    acc = None
    if len(rets) == 1 and rets[0][0] == "place":
        acc = rets[0][1]
    if acc is None:
        yield undecided("C12-R3", "normalize_path:accumulator", at(f), "return value is not a single accumulator variable: %s" % [expr_str(r) for r in rets])
        return
    # whole definitions
    inits = []
    for x in eb.var_defs(acc):
        # one initialiser per path (the value a spliced helper returns on each of its exits)
        inits.extend(x[2] if x[0] == "phi" else [x])
    for i, x in enumerate(inits):
        txt = expr_str(x)
        key = "normalize_path:%s=init#%d" % (acc, i + 1)
        if txt == "Utf8PathBuf::new()":
            yield ok("C12-R3", key, at(f), txt)
        elif txt.startswith("From>::from(Utf8Component::as_str("):
            # allowed only under the Prefix pattern: the component's discriminant was tested == Prefix
            from core import dominators

            dom = dominators(f)
            comp = x[3][0][3][0] if x[0] == "call" and x[3] and x[3][0][0] == "call" and x[3][0][3] else None
            while comp is not None and comp[0] == "ref":
                comp = comp[2]
            ctxt = expr_str(comp) if comp is not None else "?"
            defb = x[4][0] if x[0] == "call" else None
            guarded = False
            for sb in f.live_blocks():
                st = f.blocks[sb]["term"]
                if st["k"] != "switch":
                    continue
                de = eb.operand(st["discr"])
                if de[0] == "discr" and expr_str(de[1]) == ctxt:
                    for v, tb in st["targets"]:
                        if v == 0 and defb is not None and tb in dom.get(defb, ()):
                            guarded = True
            if guarded:
                yield ok("C12-R3", key, at(f), "prefix initialiser under discr(component) == Prefix: " + txt[:100])
            else:
                yield bad("C12-R3", key, at(f), "the accumulator is initialised from a path component (%s) without the test that it is a Prefix: a leading `..` or root is copied into the result" % ctxt[:120])
        else:
            yield bad("C12-R3", key, at(f), "accumulator initialised from %s" % txt[:200])
    n = 0
    # closures handed to an iterator adaptor over the components (`components.for_each(|component| ..)`): their
    # parameter is a component the iterator yields
    fed = {}
    for b, t in f.all_calls():
        e = eb.call(b, t)
        if (callee_name(e) or "").split("::")[-1] in ("for_each", "try_for_each") and len(e[3]) == 2:
            c = e[3][1]
            while c[0] == "ref":
                c = c[2]
            a0 = t["args"][0] if t["args"] else {}
            rty = a0["place"].get("ty", "") if a0.get("place") else ""
            if c[0] == "agg" and c[1] == "closure" and "Components" in rty:
                fed[c[2]] = True
    sites = [(f, eb, b, t) for b, t in f.all_calls()]
    for g in ctx.prog.closures_of(f):
        geb = ExprBuilder(ctx.prog, g)
        sites.extend((g, geb, b, t) for b, t in g.all_calls())
    for g, geb, b, t in sites:
        e = geb.call(b, t)
        if not e[3] or expr_str(e[3][0]) != "&mut " + acc:
            continue
        n += 1
        nm = (callee_name(e) or "").split("::")[-1]
        key = "normalize_path:%s.%s#%d" % (acc, nm, n)
        if nm == "pop":
            yield ok("C12-R3", key, at(f, t["span"]["line"]), "pop")
        elif nm == "push":
            arg = expr_str(e[3][1])
            par = [vn for vn, l, pj in g.var_places if l == 2 and not pj] if g is not f else []
            if g is not f and par and arg == par[0] + "@Normal.0" and strip_generics(g.norm) in fed:
                yield ok("C12-R3", key, at(f, t["span"]["line"]), "push(%s) in the closure fed by the component iterator" % arg)
            elif arg.endswith("@Normal.0") and "Iterator>::next(" in arg:
                yield ok("C12-R3", key, at(f, t["span"]["line"]), "push(%s)" % arg[-60:])
            else:
                yield bad("C12-R3", key, at(f, t["span"]["line"]), "accumulator extended by %s, which is not the payload of a Utf8Component::Normal" % arg[:200])
        else:
            yield bad("C12-R3", key, at(f, t["span"]["line"]), "accumulator mutated by %s" % (callee_name(e)))
    if n < 2:
        raise Anchor("C12-R3", "push/pop on the normaliser's accumulator")


# ================================================================ C20
@rule("C20", "C20-P1", 6, "every progress figure shown to a user or peer originates from the transaction's progress counter")
def c20_p1(ctx):
    for adt, counter in ((RECV, "self.received_file_size"), (SEND, "self.sent_file_size")):
        fns = impl_and_closures(ctx, adt)
        getter = [g for g in impl_fns(ctx, adt) if g.name == "get_progress"]
        nm = adt.split("::")[-1]
        if getter:
            eb_g = ExprBuilder(ctx.prog, getter[0])
            gdefs = [expr_str(eb_g._def_expr(d, 0, (0,))) for d in getter[0].defs(0) if d[0] in ("assign", "call")]
            if gdefs != [counter]:
                yield bad("C20-P1", "%s::get_progress" % nm, at(getter[0]), "get_progress returns %s, not %s" % (gdefs, counter))
            else:
                yield ok("C20-P1", "%s::get_progress" % nm, at(getter[0]), "returns " + counter)
        # (no getter: the indications below must then read the counter field itself)
        for ind in ("FaultIndication", "ResumeIndication", "KeepAlivePDU"):
            cnt = {}
            for f, b, j, s in agg_sites(fns, ind):
                eb = ExprBuilder(ctx.prog, f)
                e = eb.rvalue(s["rv"])
                v = dict(zip(e[4], e[5])).get("progress")
                txt = expr_str(v) if v else "?"
                base = "%s::%s:%s.progress" % (nm, f.name, ind)
                cnt[base] = cnt.get(base, 0) + 1
                key = base + ("#%d" % cnt[base] if cnt[base] > 1 else "")
                if txt in (counter, "%s::get_progress(&self)" % nm):
                    yield ok("C20-P1", key, at(f, s["span"]["line"]), "progress <- " + txt)
                else:
                    yield bad("C20-P1", key, at(f, s["span"]["line"]), "%s.progress <- %s, not the progress counter" % (ind, txt))


@rule("C20", "C20-P2", 1, "the receiver's counter is written only by adding the insert operation's new-bytes result", also=("C17", "C09"))
def c20_p2(ctx):
    fns = impl_and_closures(ctx, RECV)
    n = 0
    for f, b, j, s, ps in field_writes(fns, "self.received_file_size"):
        if f.name == "new":
            continue
        n += 1
        eb = ExprBuilder(ctx.prog, f)
        txt = expr_str(eb.rvalue(s["rv"])) if j >= 0 else "call result"
        key = "%s:received_file_size" % f.name
        if re.match(r"^\(AddWithOverflow\(self\.received_file_size, Segments::merge\(&mut self\.saved_segments, .*\)\)\)\.0$", txt) or re.match(r"^Add\(self\.received_file_size, Segments::merge\(&mut self\.saved_segments, .*\)\)$", txt):
            yield ok("C20-P2", key, at(f, s["span"]["line"]), "+= Segments::merge(..)")
        else:
            yield bad("C20-P2", key, at(f, s["span"]["line"]), "received_file_size written as %s" % txt[:200])
    # struct literal initialises it to 0
    for f, b, j, s in agg_sites(fns, "RecvTransaction"):
        e = ExprBuilder(ctx.prog, f).rvalue(s["rv"])
        v = dict(zip(e[4], e[5])).get("received_file_size")
        if v is not None and expr_str(v) == "const(0)":
            yield ok("C20-P2", "new:received_file_size=0", at(f, s["span"]["line"]), "initialised to 0")
        else:
            yield bad("C20-P2", "new:received_file_size", at(f, s["span"]["line"]), "initialised to %s" % (expr_str(v) if v else "?"))
    if n == 0:
        raise Anchor("C20-P2", "writers of RecvTransaction.received_file_size")


def _hwm_source(ctx, f, off, data, depth=0):
    """Is `off` the position a bounded read started at and `data` the bytes it read?"""
    from common import simp, sstr

    ebf = ExprBuilder(ctx.prog, f, user_stop=True)
    ddefs = [expr_str(x) for x in ebf.var_defs(data)]
    bufs = {data} | {d for d in ddefs if re.match(r"^\w+$", d)}
    read_into = False
    seek_at = False
    for b2, t2 in f.all_calls():
        c = ebf.call(b2, t2)
        cn = callee_name(c) or ""
        if cn.endswith("Read::read_to_end") or cn.endswith("Read>::read_to_end") or cn.endswith("::read_to_end"):
            if any(expr_str(a) in ("&mut " + x for x in bufs) for a in c[3][1:]):
                read_into = True
        if cn.endswith("Seek>::seek") or cn.endswith("Seek::seek"):
            if expr_str(c[3][1]) == "io::SeekFrom::Start{%s}" % off:
                seek_at = True
    if read_into and seek_at:
        return True, "max(old, %s + len(%s)); %s is the seek position, %s the bytes read" % (off, data, off, data)
    # both are components of the pair returned by one call of a local function
    if depth < 2:
        def comp(name):
            """definitions of `name`, followed through `let (a, b) = v;` where v is itself a variable"""
            ds = [simp(x) for x in ebf.var_defs(name)]
            if len(ds) == 1 and ds[0][0] == "place":
                m = re.match(r"^(\w+)((?:\.\d+)+)$", ds[0][1])
                if m:
                    inner = [simp(x) for x in ebf.var_defs(m.group(1))]
                    if len(inner) == 1 and inner[0][0] in ("call", "proj"):
                        base = inner[0]
                        return [("proj", base[1], (base[2] or "") + m.group(2), None)] if base[0] == "proj" else [("proj", base, m.group(2), None)]
            return ds

        od = comp(off)
        dd = comp(data)
        if len(od) == 1 and len(dd) == 1 and od[0][0] == "proj" and dd[0][0] == "proj" and od[0][1][0] == "call" and dd[0][1] == od[0][1]:
            mo = re.search(r"\.(\d+)$", od[0][2])
            md = re.search(r"\.(\d+)$", dd[0][2])
            g = ctx.prog.by_norm.get(callee_name(od[0][1]) or "")
            if mo and md and g is not None:
                ebg = ExprBuilder(ctx.prog, g, user_stop=True)
                pairs = set()
                for d in g.defs(0):
                    if d[0] != "assign":
                        continue
                    e = simp(ebg.rvalue(d[3]))
                    if e[0] == "agg" and e[3] == "Ok" and e[5] and simp(e[5][0])[0] == "agg" and simp(e[5][0])[1] == "tuple":
                        comps = [expr_str(simp(x)) for x in simp(e[5][0])[5]]
                        if max(int(mo.group(1)), int(md.group(1))) < len(comps):
                            pairs.add((comps[int(mo.group(1))], comps[int(md.group(1))]))
                if pairs and all(re.match(r"^\w+$", o) and re.match(r"^\w+$", dt) for o, dt in pairs):
                    res = [_hwm_source(ctx, g, o, dt, depth + 1) for o, dt in pairs]
                    if all(r[0] for r in res):
                        return True, "max(old, %s + len(%s)) of the pair returned by %s: %s" % (off, data, short(g.norm), res[0][1])
                    return False, "pair returned by %s: %s" % (short(g.norm), [r[1] for r in res if not r[0]][0])
    return False, "max idiom, but %s/%s are not the seek position / bytes read (read_into=%s seek_at=%s)" % (off, data, read_into, seek_at)


def _rv_text(eb, rv):
    e = eb.rvalue(rv)
    if e[0] == "place" and re.match(r"^\w+$", e[1]):
        ds = eb.var_defs(e[1])
        if len(ds) == 1:
            return expr_str(ds[0])
    return expr_str(e)


@rule("C20", "C20-P3", 1, "the sender's counter is written only by an accepted high-water-mark idiom fed by the bytes actually read")
def c20_p3(ctx):
    fns = impl_and_closures(ctx, SEND)
    n = 0
    for f, b, j, s, ps in field_writes(fns, "self.sent_file_size"):
        if f.name == "new":
            continue
        n += 1
        eb = ExprBuilder(ctx.prog, f, user_stop=True)
        e = eb.rvalue(s["rv"]) if j >= 0 else eb.call(b, s)
        txt = expr_str(e)
        key = "%s:sent_file_size" % f.name
        # idiom 1: max(old, offset + len(data))
        m = re.match(r"^Ord(?:>)?::max\(self\.sent_file_size, (?:\(AddWithOverflow\((.+), \(Vec::len\(&(\w+)\) as u64\)\)\)\.0|Add\((.+), \(Vec::len\(&(\w+)\) as u64\)\))\)$", txt)
        good = False
        why = ""
        if not m and j >= 0:
            # idiom 2: `let reached = offset + len(data); if reached > old { old = reached }`
            m2 = re.match(r"^(?:\(AddWithOverflow\((.+), \(Vec::len\(&(\w+)\) as u64\)\)\)\.0|Add\((.+), \(Vec::len\(&(\w+)\) as u64\)\))$", _rv_text(eb, s["rv"]))
            if m2:
                flg = Flow(ctx.prog, ctx.mods, f, lambda k: k[0] == "expr" and "self.sent_file_size" in k[1] and k[1].startswith(("Gt(", "Lt(", "Ge(", "Le(")))
                ws = [dict(w) for w in flg.at_stmt(b, j)]

                def above(w):
                    for k, (pos, vs) in w.items():
                        mm = re.match(r"^(Gt|Lt|Ge|Le)\((.+), (.+)\)$", k[1])
                        if not mm or not pos or len(vs) != 1:
                            continue
                        op, l_, r_ = mm.groups()
                        v = list(vs)[0]
                        old_left = l_ == "self.sent_file_size"
                        old_right = r_ == "self.sent_file_size"
                        # new > old  (or old < new), possibly as the false edge of the complement
                        if (op == "Gt" and old_right and v == 1) or (op == "Lt" and old_left and v == 1) or (op == "Le" and old_right and v == 0) or (op == "Ge" and old_left and v == 0):
                            return True
                    return False

                if ws and all(above(w) for w in ws):
                    m = m2
                    txt = "Ord::max(self.sent_file_size, %s)" % txt
        if m:
            off = m.group(1) or m.group(3)
            data = m.group(2) or m.group(4)
            # `data` must be the buffer filled by the bounded read, `offset` the position it was read at -
            # here, or in the local function that returns both as a pair
            good, why = _hwm_source(ctx, f, off, data)
        if good:
            yield ok("C20-P3", key, at(f, s["span"]["line"]), why)
        else:
            yield bad("C20-P3", key, at(f, s["span"]["line"]), "sent_file_size updated as %s - not an accepted high-water-mark idiom (max(old, offset + bytes read)) %s" % (txt[:200], why))
    if n == 0:
        raise Anchor("C20-P3", "writers of SendTransaction.sent_file_size")


# ================================================================ C13-Q1
ACTION_OP = {
    "CreateFile": ("create_file", 1),
    "DeleteFile": ("delete_file", 1),
    "RenameFile": ("rename_file", 2),
    "AppendFile": ("append_file", 2),
    "ReplaceFile": ("replace_file", 2),
    "CreateDirectory": ("create_directory", 1),
    "RemoveDirectory": ("remove_directory", 1),
    "DenyFile": ("delete_file", 1),
    "DenyDirectory": ("remove_directory", 1),
}


# the state of the named objects under which each action is carried out (anything else is answered with the
# action's own failure status, without touching the filestore)
PRECONDITION = {
    "CreateFile": (("exists", "first", False),),
    "DeleteFile": (("is_file", "first", True),),
    "RenameFile": (("is_file", "first", True), ("is_file", "second", False)),
    "AppendFile": (("is_file", "first", True), ("is_file", "second", True)),
    "ReplaceFile": (("is_file", "first", True), ("is_file", "second", True)),
    "CreateDirectory": (("is_dir", "first", False),),
    "RemoveDirectory": (("is_dir", "first", True),),
    "DenyFile": (("is_file", "first", True),),
    "DenyDirectory": (("is_dir", "first", True),),
}


def _action_switches(ctx, f, tyname):
    """(block, term, {variant: target}) of switches on the discriminant of a value whose type is `tyname`."""
    eb = ExprBuilder(ctx.prog, f)
    for b in f.live_blocks():
        t = f.blocks[b]["term"]
        if t["k"] != "switch":
            continue
        e = eb.operand(t["discr"])
        if e[0] != "discr":
            continue
        inner = e[1]
        ty = inner[2] if inner[0] == "place" else (inner[3] if inner[0] == "proj" else "")
        if not isinstance(ty, str) or not ty.replace("&", "").strip().endswith(tyname):
            continue
        names = ctx.prog.variant_names(ty)
        if names:
            yield b, t, {names.get(v, str(v)): tb for v, tb in t["targets"]}


@rule("C13", "C13-Q1", 36, "dispatch tables: each action's arm reports only that action's status type, runs only that action's own operation on the request's own names, and reports Successful only on the Ok edge of that operation")
def c13_q1(ctx):
    from core import dominators
    from common import simp, sstr

    pr = [f for f in ctx.prog.by_norm.values() if f.norm.endswith("filestore::FileStore::process_request") and f.crate == "cfdp_core"]
    if len(pr) != 1:
        raise Anchor("C13-Q1", "FileStore::process_request (trait default)")
    tables = [(pr[0], "FileStoreAction")]
    for nm, ty in (("FileStoreStatus::get_not_performed", "FileStoreAction"), ("FileStoreStatus::get_status", "FileStoreAction"), ("FileStoreStatus::as_u8", "FileStoreStatus")):
        tables.append((ctx.one("C13-Q1", nm), ty))
    probe_flow = [None]
    for f, ty in tables:
        sws = list(_action_switches(ctx, f, ty))
        if len(sws) != 1:
            yield undecided("C13-Q1", "%s:dispatch" % short(f.norm), at(f), "expected one dispatch on %s, found %d" % (ty, len(sws)))
            continue
        b, t, arms = sws[0]
        dom = dominators(f)
        eb = ExprBuilder(ctx.prog, f)
        missing = set(ACTION_OP) - set(arms)
        if missing:
            yield bad("C13-Q1", "%s:arms" % short(f.norm), at(f, t["span"]["line"]), "no dedicated arm for %s" % sorted(missing))
        for var, tb in sorted(arms.items()):
            blocks = [x for x in f.live_blocks() if tb in dom.get(x, ())]
            key = "%s:%s" % (short(f.norm), var)
            problems = []
            ops = []
            for x in blocks:
                blk = f.blocks[x]
                for s in blk["stmts"]:
                    if s["k"] != "assign":
                        continue
                    rv = s["rv"]
                    if rv["k"] == "agg" and rv["agg"] == "adt" and strip_generics(rv["adt"]).endswith("FileStoreStatus") and rv.get("variant") != var:
                        problems.append("arm %s builds FileStoreStatus::%s" % (var, rv.get("variant")))
                    if rv["k"] == "agg" and rv["agg"] == "adt" and rv.get("variant") == "Successful" and f is pr[0]:
                        # must be dominated by the Ok edge of the arm's own operation
                        opname = ACTION_OP[var][0]
                        okedge = False
                        for y in blocks:
                            ty_ = f.blocks[y]["term"]
                            if ty_["k"] != "switch":
                                continue
                            c = eb.operand(ty_["discr"])
                            if c[0] == "discr" and c[1][0] == "call" and (callee_name(c[1]) or "").endswith("FileStore::" + opname):
                                for v, tgt in ty_["targets"]:
                                    if v == 0 and tgt in dom.get(x, ()):
                                        okedge = True
                            # `if op(..).is_ok() {Successful}` / `if op(..).is_err() {..} else {Successful}`
                            if c[0] == "call" and (callee_name(c) or "").endswith(("Result::is_ok", "Result::is_err")) and len(c[3]) == 1:
                                inner = c[3][0]
                                while inner[0] == "ref":
                                    inner = inner[2]
                                if inner[0] == "call" and (callee_name(inner) or "").endswith("FileStore::" + opname):
                                    zero = [tgt for v, tgt in ty_["targets"] if v == 0]
                                    edge = ty_["otherwise"] if (callee_name(c) or "").endswith("is_ok") else (zero[0] if zero else None)
                                    other = (zero[0] if zero else None) if (callee_name(c) or "").endswith("is_ok") else ty_["otherwise"]
                                    if edge is not None and edge != other and edge in dom.get(x, ()):
                                        okedge = True
                        if not okedge and not s["place"]["proj"]:
                            # built ahead of the operation and picked afterwards (`status_of(op(), Successful, Failed)`):
                            # every way the constant travels on from here passes a move that lies on the Ok edge
                            def ok_at(blk_):
                                for y in blocks:
                                    ty2 = f.blocks[y]["term"]
                                    if ty2["k"] != "switch":
                                        continue
                                    c2 = eb.operand(ty2["discr"])
                                    if c2[0] == "discr" and c2[1][0] == "call" and (callee_name(c2[1]) or "").endswith("FileStore::" + opname):
                                        if any(v == 0 and tgt in dom.get(blk_, ()) for v, tgt in ty2["targets"]):
                                            return True
                                    if c2[0] == "discr" and c2[1][0] == "place":
                                        # the result bound to a variable first
                                        ds_ = [d_ for d_ in ExprBuilder(ctx.prog, f, user_stop=True).var_defs(c2[1][1])] if re.match(r"^\w+$", c2[1][1]) else []
                                        if ds_ and all(d_[0] == "call" and (callee_name(d_) or "").endswith("FileStore::" + opname) for d_ in ds_):
                                            if any(v == 0 and tgt in dom.get(blk_, ()) for v, tgt in ty2["targets"]):
                                                return True
                                return False

                            def travels_ok(l_, depth_=0):
                                from common import local_uses
                                if depth_ > 6:
                                    return False
                                us = local_uses(f, l_)
                                if not us:
                                    return depth_ > 0
                                for kind_, ub_, uj_, u_ in us:
                                    if ok_at(ub_):
                                        continue
                                    if kind_ == "stmt" and u_["rv"]["k"] == "use" and not u_["place"]["proj"] and u_["place"]["local"] != 0:
                                        if travels_ok(u_["place"]["local"], depth_ + 1):
                                            continue
                                    return False
                                return True

                            okedge = travels_ok(s["place"]["local"])
                        if not okedge:
                            problems.append("Successful is reported outside the Ok edge of %s" % opname)
                    e = eb.rvalue(rv)
                    for u in walk(e):
                        if u[0] == "uneval" and "FileStoreAction::" in u[1]:
                            uv = u[1].split("FileStoreAction::")[1].split("::")[0]
                            if uv != var:
                                problems.append("arm %s encodes the action code of %s" % (var, uv))
                tt = blk["term"]
                if tt["k"] == "call":
                    d, r, _ = ctx.prog.callee_of(tt)
                    cal = d or ""
                    if cal.startswith("cfdp_core::filestore::FileStore::") and cal.split("::")[-1] not in ("get_native_path",):
                        ops.append((cal.split("::")[-1], [sstr(a) for a in eb.call(x, tt)[3][1:]]))
            if f is pr[0]:
                # the operation is never unconditional: it sits behind a probe of the request's first name
                probes = []
                for x in blocks:
                    tx = f.blocks[x]["term"]
                    if tx["k"] == "switch":
                        c = eb.operand(tx["discr"])
                        if c[0] == "call" and (callee_name(c) or "").split("::")[-1] in ("exists", "is_file", "is_dir", "try_exists") and "request.first_filename" in sstr(c):
                            probes.append(x)
                opblocks = [x for x in blocks if f.blocks[x]["term"]["k"] == "call" and (ctx.prog.callee_of(f.blocks[x]["term"])[0] or "").startswith("cfdp_core::filestore::FileStore::") and (ctx.prog.callee_of(f.blocks[x]["term"])[0] or "").split("::")[-1] != "get_native_path"]
                for ob in opblocks:
                    if not any(pb in dom.get(ob, ()) and pb != ob for pb in probes):
                        problems.append("the operation of arm %s runs without first probing the request's first name (exists / is_file / is_dir): a request whose precondition does not hold is performed anyway" % var)
                    # ... and under exactly the precondition of that action
                    if probe_flow[0] is None:
                        probe_flow[0] = Flow(ctx.prog, ctx.mods, f, lambda k: k[0] == "call" and k[1].split("::")[-1] in ("exists", "is_file", "is_dir", "try_exists"))
                    ws = [dict(w) for w in probe_flow[0].at_term(ob)]
                    for probe, which, want_v in PRECONDITION.get(var, ()):
                        if not (ws and all(call_key(w, probe, want_v, arg_contains="request.%s_filename" % which) for w in ws)):
                            problems.append("%s runs without the precondition %s(%s name) == %s on the path: the action is performed on (or refused for) an object of the wrong kind and the outcome reported is not that of the request" % (ACTION_OP[var][0], probe, which, str(want_v).lower()))
                want, nargs = ACTION_OP.get(var, ("?", 0))
                if [o for o, _ in ops] != [want]:
                    problems.append("arm %s runs %s (expected exactly %s)" % (var, [o for o, _ in ops], want))
                else:
                    a = ops[0][1]
                    exp = ["FileStore::get_native_path(self, request.first_filename)", "FileStore::get_native_path(self, request.second_filename)"][:nargs]
                    if a != exp:
                        problems.append("%s is applied to %s, not to the request's own name(s)" % (want, a))
            if problems:
                for i, p in enumerate(sorted(set(problems))):
                    yield bad("C13-Q1", key + (":%d" % i if i else ""), at(f, t["span"]["line"]), p)
            else:
                yield ok("C13-Q1", key, at(f, t["span"]["line"]), {"operation": ops[0][0] if ops else None})
    # the response names the request's own files
    f = pr[0]
    for _f, b, j, s in agg_sites([f], "FileStoreResponse"):
        e = simp(ExprBuilder(ctx.prog, f).rvalue(s["rv"]))
        fl = dict(zip(e[4], e[5]))
        okn = expr_str(fl.get("first_filename", ("other",))) == "request.first_filename" and expr_str(fl.get("second_filename", ("other",))) == "request.second_filename"
        if okn:
            yield ok("C13-Q1", "process_request:response-names", at(f, s["span"]["line"]), "first/second filename copied from the request")
        else:
            yield bad("C13-Q1", "process_request:response-names", at(f, s["span"]["line"]), "response names: %s / %s" % (expr_str(fl.get("first_filename", ("other",))), expr_str(fl.get("second_filename", ("other",)))))


# ================================================================ C09-G3 / G4
@rule("C09", "C09-G3", 1, "a gap whose end is the window bound is reported only under `start of gap < window end` (no list invariant can order the pointer against a free parameter)", also=("C08",))
def c09_g3(ctx):
    from common import simp, sstr

    f = ctx.one("C09-G3", "segments::Segments::gaps")
    params = {vn: l for vn, l, pj in f.var_places if not pj and 2 <= l <= f.arg_count}
    if len(params) != 2:
        raise Anchor("C09-G3", "Segments::gaps(start, end) parameters")
    names = sorted(params, key=lambda k: params[k])
    p_start, p_end = names[0], names[1]

    def track(key):
        return key[0] == "expr" and re.match(r"^(Lt|Gt|Le|Ge)\(", key[1]) is not None

    fl = Flow(ctx.prog, ctx.mods, f, track, user_stop=True)
    eb = ExprBuilder(ctx.prog, f, user_stop=True)
    n = 0
    cnt = {}
    for b, t in f.all_calls():
        d, r, _ = ctx.prog.callee_of(t)
        if not (r or d or "").endswith("Vec::push"):
            continue
        e = simp(eb.call(b, t))
        tup = e[3][1] if len(e[3]) > 1 else None
        if tup is None or tup[0] != "agg" or len(tup[5]) != 2:
            continue
        a, z = expr_str(tup[5][0]), expr_str(tup[5][1])
        if z != p_end:
            continue  # both ends come from the list: ordered by the sorted-disjoint invariant (not decided)
        n += 1
        base = "Segments::gaps:push(%s, %s)" % (a, z)
        cnt[base] = cnt.get(base, 0) + 1
        key = base + ("#%d" % cnt[base] if cnt[base] > 1 else "")
        worlds = fl.at_term(b)
        want_true = ("Lt(%s, %s)" % (a, z), "Gt(%s, %s)" % (z, a))
        want_false = ("Ge(%s, %s)" % (a, z), "Le(%s, %s)" % (z, a))

        def guard(dw):
            for k, (pos, s) in dw.items():
                if k[0] != "expr":
                    continue
                if k[1] in want_true and pos and s == frozenset([1]):
                    return True
                if k[1] in want_false and pos and s == frozenset([0]):
                    return True
            return False

        good, w = all_worlds_satisfy(worlds, guard)
        if good and worlds:
            yield ok("C09-G3", key, at(f, t["span"]["line"]), "under %s < %s" % (a, z))
        else:
            yield bad("C09-G3", key, at(f, t["span"]["line"]), "the gap (%s, %s) is reported without a test %s < %s on the path: when the window ends inside held data the range is inverted or empty (state %s)" % (a, z, a, z, world_str(w) if w is not None else "unreachable"))
    if n == 0:
        raise Anchor("C09-G3", "gap pushes bounded by the window end in Segments::gaps")


SEG_MUTATORS_OK = ("push", "insert", "remove", "index_mut", "last_mut", "first_mut", "get_mut", "deref_mut", "as_mut_slice")
SEG_READERS = ("len", "is_empty", "last", "first", "get", "iter", "as_slice", "binary_search_by", "binary_search", "binary_search_by_key", "index", "deref", "partition_point", "windows")


@rule("C09", "C09-G4", 3, "the held-range list is edited only by order-preserving operations (insert at the searched position, push at the end, remove, in-place edits of one range)")
def c09_g4(ctx):
    fns = [f for f in ctx.prog.by_norm.values() if f.crate == "cfdp_daemon" and "::segments::" in f.norm and "::test" not in f.norm]
    n = 0
    cnt = {}
    for f in fns:
        eb = ExprBuilder(ctx.prog, f, inline=False)
        for b, t in f.all_calls():
            e = eb.call(b, t)
            if not e[3]:
                continue
            a0 = e[3][0]
            if not (a0[0] == "ref" and a0[1]):
                continue
            ty = ""
            if t["args"] and t["args"][0].get("k") in ("move", "copy"):
                ty = t["args"][0]["place"]["ty"]
            if "Vec<(u64, u64)>" not in ty:
                continue
            last = (callee_name(e) or "").split("::")[-1]
            if last in SEG_READERS or (callee_name(e) or "") in ctx.prog.by_norm:
                continue  # readers; local helpers are examined in their own body
            n += 1
            base = "%s:%s" % (short(f.norm), last)
            cnt[base] = cnt.get(base, 0) + 1
            key = base + ("#%d" % cnt[base] if cnt[base] > 1 else "")
            if last in SEG_MUTATORS_OK:
                yield ok("C09-G4", key, at(f, t["span"]["line"]), "order-preserving edit")
            else:
                yield bad("C09-G4", key, at(f, t["span"]["line"]), "the sorted range list is edited by %s, which does not preserve its order: the binary searches and the coalescing loop rely on it" % last)
    if n == 0:
        raise Anchor("C09-G4", "mutators of the range list")


def _flatten_alts(e, comp=None):
    """Alternatives of a value built through phi / tuple / projection plumbing."""
    from common import simp

    e = simp(e)
    if e[0] == "phi":
        out = []
        for x in e[2]:
            out.extend(_flatten_alts(x, comp))
        return out
    if e[0] == "proj" and re.match(r"^\.\d+$", e[2] or "") and simp(e[1])[0] in ("phi", "agg"):
        return _flatten_alts(e[1], int(e[2][1:]))
    if e[0] == "agg" and e[1] == "tuple" and comp is not None and comp < len(e[5]):
        return _flatten_alts(e[5][comp], None)
    return [e]


@rule("C09", "C09-G5", 2, "a reported gap never starts before the window: the running start of the next gap is the window start, a maximum with it, the end of the range found to begin exactly there, or the end of the range just passed", also=("C08",))
def c09_g5(ctx):
    from common import simp, sstr

    f = ctx.one("C09-G5", "segments::Segments::gaps")
    params = {vn: l for vn, l, pj in f.var_places if not pj and 2 <= l <= f.arg_count}
    names = sorted(params, key=lambda k: params[k])
    if len(names) != 2:
        raise Anchor("C09-G5", "Segments::gaps(start, end) parameters")
    p_start = names[0]
    ebu = ExprBuilder(ctx.prog, f, user_stop=True)
    ebf = ExprBuilder(ctx.prog, f)
    firsts = set()
    for b, t in f.all_calls():
        d, r, _ = ctx.prog.callee_of(t)
        if (r or d or "").endswith("Vec::push"):
            e = simp(ebu.call(b, t))
            tup = e[3][1] if len(e[3]) > 1 else None
            if tup is not None and tup[0] == "agg" and len(tup[5]) == 2:
                firsts.add(expr_str(tup[5][0]))
    if not firsts:
        raise Anchor("C09-G5", "gap pushes in Segments::gaps")
    n = 0
    for var in sorted(firsts):
        if not re.match(r"^\w+$", var):
            yield undecided("C09-G5", "Segments::gaps:start-of-gap", at(f), "gap start is the expression %s, not a running variable" % var)
            continue
        for i, d in enumerate(ebf.var_defs(var)):
            for a in _flatten_alts(d):
                n += 1
                txt = expr_str(a)
                key = "Segments::gaps:%s<-%s" % (var, re.sub(r"_\d+", "_", txt)[:70])
                good = None
                if txt == p_start:
                    good = "the window start"
                elif a[0] == "call" and (callee_name(a) or "").split("::")[-1] == "max" and any(expr_str(simp(x)) == p_start for x in a[3]):
                    good = "max(.., window start)"
                elif re.match(r"^\(Iterator>::next\(\w+\)\)@Some\.0(\.\*)?\.1$", txt):
                    good = "end of the range just passed"
                elif a[0] == "proj" and a[2] == ".1" and simp(a[1])[0] == "call" and (callee_name(simp(a[1])) or "").endswith("index"):
                    idx = expr_str(simp(a[1])[3][1]) if len(simp(a[1])[3]) > 1 else ""
                    if re.match(r"^\(slice::binary_search_by\(self\.0, closure \w+::\{closure#\d+\}\{%s\}\)\)@Ok\.0$" % re.escape(p_start), idx) and _cmp_start_closure(ctx, simp(a[1])[3][1]):
                        good = "end of the range that begins exactly at the window start (binary search Ok)"
                if good:
                    yield ok("C09-G5", key, at(f), good)
                else:
                    yield bad("C09-G5", key, at(f), "the start of the next gap can be %s, which is not bounded below by the window start: a gap can begin before the requested window" % txt[:200])
    if n == 0:
        raise Anchor("C09-G5", "definitions of the gap-start variable")


def _cmp_start_closure(ctx, idx_expr):
    """the binary search compares each range's start (`x.0.cmp(&start)`): Ok(k) then means v[k].0 == start"""
    for y in walk(idx_expr):
        if y[0] == "agg" and y[1] == "closure":
            c = ctx.prog.by_norm.get(y[2])
            if c is None:
                return False
            ebc = ExprBuilder(ctx.prog, c)
            rets = [expr_str(ebc._def_expr(d, 0, (0,))) for d in c.defs(0) if d[0] in ("assign", "call")]
            return bool(rets) and all(re.match(r"^Ord( for u64)?>::cmp\(&\w+(\.\*)*\.0, &\w+\)$", r_) for r_ in rets)
    return False


@rule("C09", "C09-G6", 4, "the coalescing helper is applied to the very range whose end was just extended (same index expression)", also=("C20",))
def c09_g6(ctx):
    from core import dominators
    from common import sstr

    f = ctx.one("C09-G6", "segments::Segments::merge")
    helper = ctx.one("C09-G6", "segments::merge")
    eb = ExprBuilder(ctx.prog, f)
    dom = dominators(f)
    # writes `v[K].1 = ..` through IndexMut
    writes = []
    for b in f.live_blocks():
        for s in f.blocks[b]["stmts"]:
            if s["k"] != "assign":
                continue
            pj = s["place"]["proj"]
            if len(pj) >= 2 and pj[0]["k"] == "deref" and pj[-1]["k"] == "field" and pj[-1].get("name") == "1":
                for d in f.defs(s["place"]["local"]):
                    if d[0] == "call":
                        base = eb.call(d[1], d[2])
                        if (callee_name(base) or "").endswith("index_mut") and len(base[3]) > 1:
                            writes.append((b, sstr(base[3][1])))
    n = 0
    for b, t in f.all_calls():
        d, r, _ = ctx.prog.callee_of(t)
        if (r or d) != helper.norm:
            continue
        n += 1
        k = sstr(eb.call(b, t)[3][1])
        key = "Segments::merge:site#%d" % n
        near = [w for w in writes if w[0] in dom.get(b, ()) or w[0] == b]
        same = [w for w in near if w[1] == k]
        if same:
            yield ok("C09-G6", key, at(f, t["span"]["line"]), "coalesces at index %s, whose end was just written" % k[-60:])
        else:
            yield bad("C09-G6", key, at(f, t["span"]["line"]), "merge(v, %s) coalesces at an index whose end was not the one just extended (extended: %s): ranges swallowed by the extended one stay in the list and are counted as new" % (k[-80:], sorted({w[1][-60:] for w in near})))
    if n == 0:
        raise Anchor("C09-G6", "calls of segments::merge")
    # ... and the other way round: an end extended in the middle of the list is always followed by the helper
    helper_blocks = {b for b, t in f.all_calls() if (ctx.prog.callee_of(t)[1] or ctx.prog.callee_of(t)[0]) == helper.norm}
    seen = set()
    for wb, k in writes:
        if (wb, k) in seen:
            continue
        seen.add((wb, k))
        key = "Segments::merge:end-extended[%s]" % re.sub(r"_\d+", "_", k)[-50:]
        if wb in helper_blocks:
            continue
        r = f.reachable(wb, avoid=helper_blocks)
        if any(f.blocks[x]["term"]["k"] == "return" for x in r):
            yield bad("C09-G6", key, at(f, f.blocks[wb]["term"]["span"]["line"]), "the end of the held range at index %s is extended and a path returns without coalescing it with the ranges to its right: touching or overlapping ranges stay separate (completeness and gaps are then computed from a list that is not disjoint)" % k[-60:])


@rule("C09", "C09-G7", 1, "a reported gap never extends beyond the window: its end is the window end, or the start of a held range tested to lie before the window end", also=("C08",))
def c09_g7(ctx):
    from common import simp, sstr

    f = ctx.one("C09-G7", "segments::Segments::gaps")
    params = {vn: l for vn, l, pj in f.var_places if not pj and 2 <= l <= f.arg_count}
    names = sorted(params, key=lambda k: params[k])
    if len(names) != 2:
        raise Anchor("C09-G7", "Segments::gaps(start, end) parameters")
    p_end = names[1]

    def track(key):
        return key[0] == "expr" and re.match(r"^(Lt|Gt|Le|Ge)\(", key[1]) is not None

    fl = Flow(ctx.prog, ctx.mods, f, track, user_stop=True)
    eb = ExprBuilder(ctx.prog, f, user_stop=True)
    n = 0
    for b, t in f.all_calls():
        d, r, _ = ctx.prog.callee_of(t)
        if not (r or d or "").endswith("Vec::push"):
            continue
        e = simp(eb.call(b, t))
        tup = e[3][1] if len(e[3]) > 1 else None
        if tup is None or tup[0] != "agg" or len(tup[5]) != 2:
            continue
        z = expr_str(tup[5][1])
        if z == p_end:
            continue
        n += 1
        key = "Segments::gaps:push(_, %s)" % z
        # the held ranges the loop sees were cut off by `take_while(|(s, _)| *s < end)`
        zf = expr_str(simp(ExprBuilder(ctx.prog, f).call(b, t))[3][1][5][1]) if True else ""
        mi = re.match(r"^\(Iterator>::next\((?:&mut )?(\w+)\)\)@Some\.0(\.\*)?\.0$", zf)
        if mi:
            okw = False
            for dx in ExprBuilder(ctx.prog, f).var_defs(mi.group(1)):
                for y in walk(dx):
                    if y[0] == "call" and (callee_name(y) or "").split("::")[-1] == "take_while" and len(y[3]) == 2:
                        clo = [c_ for c_ in walk(y[3][1]) if c_[0] == "agg" and c_[1] == "closure"]
                        cf = ctx.prog.by_norm.get(clo[0][2]) if clo else None
                        if cf is not None:
                            ebc = ExprBuilder(ctx.prog, cf)
                            rets_ = [expr_str(ebc._def_expr(d_, 0, (0,))) for d_ in cf.defs(0) if d_[0] in ("assign", "call")]
                            caps = [c_ for c_ in clo[0][5]]
                            cap_is_end = any(expr_str(simp(c_)) == p_end for c_ in caps)
                            if rets_ and cap_is_end and all(re.match(r"^Lt\(_2(\.\*)*\.0(\.\*)?, \w+\)$", r_) for r_ in rets_):
                                okw = True
            if okw:
                yield ok("C09-G7", key, at(f, t["span"]["line"]), "the ranges iterated are cut off at the first start >= window end (take_while)")
                continue
        worlds = fl.at_term(b)
        zs = {z, z + ".*", z.replace(".*", "")}

        def guard(dw):
            for k, (pos, s) in dw.items():
                if k[0] != "expr":
                    continue
                m = re.match(r"^(Lt|Gt|Le|Ge)\((.+), (.+)\)$", k[1])
                if not m:
                    continue
                op, a, c = m.groups()
                val = 1 if (pos and s == frozenset([1])) else (0 if (pos and s == frozenset([0])) else None)
                if val is None:
                    continue
                # z < end  or  z <= end, in any spelling
                if a in zs and c == p_end and ((op in ("Lt", "Le") and val == 1) or (op in ("Ge", "Gt") and val == 0)):
                    return True
                if c in zs and a == p_end and ((op in ("Gt", "Ge") and val == 1) or (op in ("Le", "Lt") and val == 0)):
                    return True
            return False

        good, w = all_worlds_satisfy(worlds, guard)
        if good and worlds:
            yield ok("C09-G7", key, at(f, t["span"]["line"]), "under %s < window end" % z)
        else:
            yield bad("C09-G7", key, at(f, t["span"]["line"]), "the gap ending at %s is reported without a test that %s lies before the window end: the gap can extend beyond the requested window (state %s)" % (z, z, world_str(w) if w is not None else "unreachable"))
    if n == 0:
        raise Anchor("C09-G7", "gap pushes ending at a held range's start")


@rule("C09", "C09-G8", 1, "the list of held ranges of a receive transaction is only ever changed by recording a written segment (Segments::merge in store_file_data): it is never reset or replaced while the staged bytes exist", also=("C01", "C04", "C20"))
def c09_g8(ctx):
    fns = impl_and_closures(ctx, RECV)
    n = 0
    for f in fns:
        fname = f.name if f.kind != "Closure" else short(f.root or f.norm).split("::")[-1]
        for _f, b, j, s, ps in field_writes([f], "self.saved_segments"):
            if fname == "new":
                continue
            n += 1
            yield bad("C09-G8", "RecvTransaction::%s:saved_segments=" % fname, at(f, s["span"]["line"]), "the held-range list is overwritten: bytes already staged are forgotten (later duplicates count as new data; sizes and completeness are judged on a different set than the file holds)")
        eb = ExprBuilder(ctx.prog, f, inline=False)
        for b, t in f.all_calls():
            e = eb.call(b, t)
            if not e[3] or expr_str(e[3][0]) != "&mut self.saved_segments":
                continue
            n += 1
            last = (callee_name(e) or "").split("::")[-1]
            key = "RecvTransaction::%s:saved_segments.%s" % (fname, last)
            if last == "merge" and fname == "store_file_data":
                yield ok("C09-G8", key, at(f, t["span"]["line"]), "recording a written segment")
            else:
                yield bad("C09-G8", key, at(f, t["span"]["line"]), "the held-range list is mutated by %s in %s" % (last, fname))
    if n == 0:
        raise Anchor("C09-G8", "mutations of RecvTransaction.saved_segments")


# ================================================================ C13-Q4
TRUNCATING = ("std::fs::write", "std::fs::copy", "std::fs::File::create", "std::fs::File::create_new", "std::fs::rename")
COMPLETE_READ = ("std::fs::read", "std::fs::read_to_string", "std::io::Read::read_to_end", "std::io::Read::read_to_string")


@rule("C13", "C13-Q4", 1, "a two-file filestore operation that overwrites file 1 with file 2 has read file 2 completely before it touches file 1 (a request that fails while reading changes nothing)")
def c13_q4(ctx):
    fns = [f for f in ctx.prog.by_norm.values() if f.crate == "cfdp_core" and (f.impl_trait or "").endswith("filestore::FileStore") and f.name in ("replace_file",)]
    if not fns:
        raise Anchor("C13-Q4", "impl FileStore::replace_file")
    dom = None
    for f in fns:
        eb = ExprBuilder(ctx.prog, f)
        dom = dominators(f)
        params = [vn for vn, l, pj in f.var_places if not pj and 2 <= l <= f.arg_count]
        if len(params) != 2:
            raise Anchor("C13-Q4", "replace_file(path1, path2)")
        p1, p2 = params

        def mentions(e, name):
            return any(p == name or p.startswith(name + ".") for p in places_in(e))

        reads2 = []
        sinks1 = []
        for b, t in f.all_calls():
            d, r, _ = ctx.prog.callee_of(t)
            cal = r or d or ""
            e = eb.call(b, t)
            if cal.startswith(COMPLETE_READ) and any(mentions(a, p2) for a in e[3]):
                reads2.append(b)
            trunc = cal.startswith(TRUNCATING)
            if cal.endswith("OpenOptions::open") and e[3]:
                chain = expr_str(e[3][0])
                trunc = "truncate(" in chain and "const(1)" in chain or "OpenOptions::create(" in chain
            if trunc and e[3] and mentions(e[3][0] if not cal.endswith("OpenOptions::open") else e[3][1], p1):
                sinks1.append((b, t, cal))
            elif cal.startswith("std::fs::copy") and len(e[3]) > 1 and mentions(e[3][1], p1):
                sinks1.append((b, t, cal))
        who = short(f.impl_self_adt or f.norm)
        if not sinks1:
            yield undecided("C13-Q4", "%s::replace_file:overwrite" % who, at(f), "no recognised overwriting call on file 1 (idiom changed?)")
            continue
        for b, t, cal in sinks1:
            key = "%s::replace_file:%s" % (who, cal.split("::")[-1])
            if reads2 and any(rb in dom.get(b, ()) and rb != b for rb in reads2):
                yield ok("C13-Q4", key, at(f, t["span"]["line"]), "%s on file 1 is dominated by a complete read of file 2" % cal.split("::")[-1])
            else:
                yield bad("C13-Q4", key, at(f, t["span"]["line"]), "%s truncates / overwrites file 1 before file 2 has been read completely: a read failure (or file 1 == file 2) leaves file 1 changed although the request failed" % cal)


# ================================================================ C13-Q5
def is_ancestor_creating_call(cal):
    """A filesystem call that silently creates missing parent directories."""
    return cal in ("std::fs::create_dir_all", "tokio::fs::create_dir_all") or cal.endswith("DirBuilder::recursive")


@rule("C13", "C13-Q5", 1, "a filestore operation acts on the one object its request names: no primitive that silently creates missing ancestors (a Create Directory whose parent is missing must fail and change nothing)")
def c13_q5(ctx):
    fns = [f for f in ctx.prog.by_norm.values() if f.crate == "cfdp_core" and ((f.impl_trait or "").endswith("filestore::FileStore") or (f.in_trait or "").endswith("filestore::FileStore"))]
    if not fns:
        raise Anchor("C13-Q5", "impl FileStore")
    allf = []
    for f in fns:
        allf.append(f)
        allf.extend(ctx.prog.closures_of(f))
    n = 0
    for f in allf:
        for b, t in f.all_calls():
            d, r, _ = ctx.prog.callee_of(t)
            cal = r or d or ""
            if is_ancestor_creating_call(cal):
                n += 1
                yield bad("C13-Q5", "%s:%s" % (short(f.root or f.norm), cal.split("::")[-1]), at(f, t["span"]["line"]), "%s creates every missing ancestor: the request succeeds (and changes the filestore) where its precondition - the parent exists - does not hold" % cal)
    yield ok("C13-Q5", "filestore:no-ancestor-creation", "%d functions" % len(allf), "%d ancestor-creating calls" % n, nontrivial=(n == 0))


# ================================================================ C20-P4 / P5
@rule("C20", "C20-P4", 1, "every byte recorded as held is counted: each call of the insert operation on the transaction's range list is followed, on every path that returns normally, by adding its result to the progress counter")
def c20_p4(ctx):
    from rules_txn import _error_exit_blocks

    fns = impl_fns(ctx, RECV)
    n = 0
    for f, b, t, d, r in call_sites(fns, ends("segments::Segments::merge"), ctx.prog):
        e = ExprBuilder(ctx.prog, f).call(b, t)
        if not (e[0] == "call" and e[3] and "self.saved_segments" in expr_str(e[3][0])):
            continue
        n += 1
        key = "%s:merge->received_file_size" % f.name + ("#%d" % n if n > 1 else "")
        writes = {wb for _f, wb, wj, ws, ps in field_writes([f], "self.received_file_size") if ps == "self.received_file_size"}
        err = _error_exit_blocks(ctx, f)
        start = t["target"]
        # a normal return reachable from after the merge without passing the counter update?
        reach = f.reachable(start, avoid=(writes | err) - {start}) if start not in writes else set()
        leaks = [x for x in reach if f.blocks[x]["term"]["k"] == "return"]
        if writes and not leaks:
            yield ok("C20-P4", key, at(f, t["span"]["line"]), "every normal path after merge() adds its result to received_file_size")
        else:
            yield bad("C20-P4", key, at(f, t["span"]["line"]), "a path records the segment in the range list and returns without adding the newly held bytes to the progress counter: the reported progress falls behind what is held")
    if n == 0:
        raise Anchor("C20-P4", "Segments::merge on the receive transaction's range list")


@rule("C20", "C20-P5", 1, "the first pass over the file always advances the sender's progress: a first-pass segment (no explicit offset) is sent with the progress update switched on")
def c20_p5(ctx):
    fns = impl_fns(ctx, SEND)
    n = 0
    for f in fns:
        eb = ExprBuilder(ctx.prog, f)
        for b, t in f.all_calls():
            d, r, _ = ctx.prog.callee_of(t)
            g = ctx.prog.by_norm.get(r or d or "")
            if g is None or g not in fns or g.norm == f.norm:
                continue
            # callee with (Option<u64> offset, .., bool update) parameters
            tys = [g.locals[i]["ty"] for i in range(1, g.arg_count + 1)]
            if not any(ty == "bool" for ty in tys) or not any("Option<u64>" in ty for ty in tys):
                continue
            e = eb.call(b, t)
            if e[0] != "call":
                continue
            oi = [i for i, ty in enumerate(tys) if "Option<u64>" in ty][0]
            bi = [i for i, ty in enumerate(tys) if ty == "bool"][-1]
            off = e[3][oi]
            if not (off[0] == "agg" and off[3] == "None"):
                continue  # a retransmission at an explicit offset
            n += 1
            key = "%s->%s:first-pass" % (f.name, g.name) + ("#%d" % n if n > 1 else "")
            flag = e[3][bi]
            if flag[0] == "const" and flag[1] in (1, True):
                yield ok("C20-P5", key, at(f, t["span"]["line"]), "first-pass segment sent with the progress update on")
            else:
                yield bad("C20-P5", key, at(f, t["span"]["line"]), "a first-pass segment is sent with the progress update %s: the sender's reported progress stays behind what it has transmitted" % expr_str(flag)[:80])
    if n == 0:
        yield ok("C20-P5", "no-update-flag", "-", "the sender has no progress-update switch on its segment sender (see C20-P3 for the update itself)", nontrivial=False)


# ================================================================ C16-R
@rule("C16", "C16-R", 1, "what the transport hands out as a received PDU is what PDU::decode returned for this datagram (nothing cached, patched or rebuilt from earlier input)")
def c16_r(ctx):
    from common import simp, sstr

    fns = [f for f in ctx.prog.by_norm.values() if f.crate == "cfdp_daemon" and "PDUTransport>::receive" in f.norm and f.kind == "Closure" and "pdu::PDU" in (f.locals[0]["ty"] or "")]
    n = 0

    def is_decode(x):
        return x[0] == "call" and ((callee_name(x) or "").endswith("PDUEncode>::decode") or "PDUEncode::decode" in (x[1] or ""))

    for f in fns:
        eb = ExprBuilder(ctx.prog, f, user_stop=True)
        alts = []
        for d in f.defs(0):
            if d[0] in ("assign", "call"):
                e = simp(eb._def_expr(d, 0, (0,)))
                alts.extend([(x, d) for x in (e[2] if e[0] == "phi" else (e,))])
        for e, d in alts:
            line = d[3].get("span", {}).get("line") if d[0] == "assign" and isinstance(d[3], dict) and "span" in d[3] else None
            if e[0] == "agg" and e[3] == "Err":
                continue
            if e[0] == "call" and (callee_name(e) or "").endswith("from_residual"):
                continue
            if e[0] == "place" and re.match(r"^\w+$", e[1]):
                srcs0 = [simp(x) for x in eb.var_defs(e[1])] or [e]
            else:
                srcs0 = [e]
            flat0 = []
            for e2 in srcs0:
                # one alternative per path (the value a spliced helper returns on each of its exits)
                flat0.extend(simp(x) for x in e2[2]) if e2[0] == "phi" else flat0.append(e2)
            for e2 in flat0:
                if e2[0] == "agg" and e2[3] == "Err":
                    continue
                if expr_str(e2).startswith("(option::Option::None{})@Some.0"):
                    continue  # async_trait's `if let Some(ret) = None::<T> { return ret }` typing device: unreachable
                n += 1
                key = "%s:returned-pdu" % short(f.root or f.norm) + ("#%d" % n if n > 1 else "")
                good = False
                what = expr_str(e2)[:120]
                if is_decode(e2):
                    good = True  # decode(..) (its error mapped) returned as it is
                elif e2[0] == "agg" and e2[3] == "Ok" and e2[5]:
                    v = e2[5][0]
                    srcs = [v]
                    if v[0] == "place" and re.match(r"^\w+$", v[1]):
                        srcs = [simp(x) for x in eb.var_defs(v[1])] or [v]
                    # (simp() renders `decode(..)@Ok.0` of a matched Result as the call itself)
                    good = all((x[0] == "proj" and x[2].startswith("@Ok.0") and is_decode(x[1])) or is_decode(x) for x in srcs)
                    what = [expr_str(x)[:100] for x in srcs]
                if good:
                    yield ok("C16-R", key, at(f), "the PDU returned is the decoder's result for this datagram")
                else:
                    yield bad("C16-R", key, at(f), "receive can return %s, which is not the result of decoding the datagram just received: a PDU from earlier input can be delivered for a datagram that does not contain it" % what)
    if n == 0:
        raise Anchor("C16-R", "Ok(pdu) returned by an impl of PDUTransport::receive")


# ================================================================ C20-P6: progress is read when it is reported
SNAPSHOT_OK = {
    "self.nak_received_file_size": "compared with the counter to tell whether data arrived since the last NAK; never shown to anybody (C20-P1 checks what is shown)",
}


@rule("C20", "C20-P6", 2, "a progress figure is read from the counter when it is reported: no transaction field other than the counter itself holds a copy of it (a stored copy goes stale while data keeps arriving)")
def c20_p6(ctx):
    from common import field_writes

    n = 0
    for adt, counter in ((RECV, "self.received_file_size"), (SEND, "self.sent_file_size")):
        nm = adt.split("::")[-1]
        fns = impl_and_closures(ctx, adt)
        found = []
        for f in fns:
            if f.name == "new":
                continue
            eb = ExprBuilder(ctx.prog, f)
            for b in f.live_blocks():
                for s in f.blocks[b]["stmts"]:
                    if s["k"] != "assign":
                        continue
                    ps = f.place_str(s["place"])
                    if not ps.startswith("self.") or ps == counter or ps.startswith(counter + "."):
                        continue
                    e = eb.rvalue(s["rv"])
                    txt = expr_str(e)
                    if counter in places_in(e) or "::get_progress(" in txt:
                        found.append((f, s["span"]["line"], ps.split("@")[0]))
        n += 1
        key = "%s:stored-progress" % nm
        extra = [(f, l, ps) for f, l, ps in found if ps not in SNAPSHOT_OK]
        if extra:
            f, l, ps = extra[0]
            yield bad("C20-P6", key, at(f, l), "%s keeps a copy of the progress figure in %s: what is later reported from it is the progress at the time of the copy, not the bytes held (or sent) when the report is made" % (f.name, ps))
        else:
            yield ok("C20-P6", key, "-", {"copies": sorted({ps for _f, _l, ps in found})})
    if n == 0:
        raise Anchor("C20-P6", "transactions")


# ================================================================ C09-G9: the list has no capacity
@rule("C09", "C09-G9", 1, "what is recorded does not depend on how many ranges are already held: no decision in the insert operation compares the number of held ranges with a bound (a segment that is left out because the list is 'full' is held in the file but not in the bookkeeping)", also=("C20", "C08"))
def c09_g9(ctx):
    f = ctx.one("C09-G9", "segments::Segments::merge")
    helper = ctx.one("C09-G9", "segments::merge")
    n = 0
    for g in (f, helper):
        eb = ExprBuilder(ctx.prog, g)
        for b in g.live_blocks():
            t = g.blocks[b]["term"]
            if t["k"] != "switch":
                continue
            e = eb.operand(t["discr"])
            for x in walk(e):
                if x[0] == "binop" and x[1] in ("Lt", "Le", "Gt", "Ge", "Eq", "Ne"):
                    for a, c in ((x[2], x[3]), (x[3], x[2])):
                        ta = expr_str(a)
                        isl = (a[0] == "call" and (callee_name(a) or "").split("::")[-1] == "len" and "[" not in ta) or (a[0] == "unop" and a[1] == "PtrMetadata")
                        bound = None
                        if c[0] == "const" and isinstance(c[1], int):
                            bound = c[1]
                        elif c[0] == "uneval":
                            bound = expr_str(c)
                        if isl and bound is not None and not (isinstance(bound, int) and bound <= 1):
                            n += 1
                            yield bad("C09-G9", "Segments::merge:bound-on-len" + ("#%d" % n if n > 1 else ""), at(g, t["span"]["line"]), "a decision in the insert operation compares the number of held ranges with %s: beyond that many ranges a received segment is not recorded although it was written to the file" % bound)
    if n == 0:
        yield ok("C09-G9", "Segments::merge:no-capacity", at(f), "no comparison of the list length with a bound")
