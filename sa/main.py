import argparse
import json
import os
import sys
import time

import facts as factsmod
import engine

import rules_txn  # noqa: F401  (registers rules)
import rules_codec  # noqa: F401
import rules_misc  # noqa: F401
import rules_wiring  # noqa: F401
import rules_daemon  # noqa: F401
import rules_pdu  # noqa: F401
import rules_c05  # noqa: F401
from props import PROPS


def _one(job):
    import io
    import contextlib

    p, rest = job
    buf = io.StringIO()
    with contextlib.redirect_stdout(buf):
        try:
            r = main([p] + rest)
        except SystemExit as e:
            r = int(e.code or 0)
    return r, buf.getvalue()


def main(argv):
    # several properties in one process (tools only): ./check C01,C04,... [--repo ..]
    if argv and "," in argv[0]:
        props = argv[0].split(",")
        jobs = int(os.environ.get("VERIF_JOBS", "6") or 1)
        if jobs > 1 and len(props) > 1:
            # extract once (fills the fact cache), then one forked worker per property
            repo = argv[argv.index("--repo") + 1] if "--repo" in argv else None
            tag = argv[argv.index("--tag") + 1] if "--tag" in argv else "main"
            try:
                factsmod.extract(repo=repo, profile="dev", target_tag=tag)
            except RuntimeError as e:
                print("INTERNAL: %s" % e)
                return 2
            import multiprocessing

            with multiprocessing.get_context("fork").Pool(min(jobs, len(props))) as pool:
                outs = pool.map(_one, [(p, argv[1:]) for p in props])
            rc = 0
            for p, (r, text) in zip(props, outs):
                print("=== %s" % p)
                sys.stdout.write(text)
                rc = max(rc, r)
            return rc
        rc = 0
        for p in props:
            print("=== %s" % p)
            rc = max(rc, main([p] + argv[1:]))
        return rc
    ap = argparse.ArgumentParser()
    ap.add_argument("prop")
    ap.add_argument("--tier", default=os.environ.get("VERIF_TIER", "quick"), choices=["quick", "thorough"])
    ap.add_argument("--replay", default=None)
    ap.add_argument("--repo", default=None)
    ap.add_argument("--tag", default="main")
    a = ap.parse_args(argv)
    prop = a.prop.upper()
    if prop not in PROPS:
        print("unknown or not-applicable property %s" % prop)
        return 2
    seed = int(os.environ.get("VERIF_SEED", "0") or 0)
    t0 = time.time()
    try:
        facts, th = factsmod.extract(repo=a.repo, profile="dev", target_tag=a.tag)
        facts_rel = None
        if a.tier == "thorough" and prop in ("C06", "C11", "C14"):
            facts_rel, _ = factsmod.extract(repo=a.repo, profile="rel", target_tag=a.tag)
    except RuntimeError as e:
        print("INTERNAL: %s" % e)
        return 2
    try:
        import controls
        ctl = controls.verify()
    except (controls.ControlFailure, RuntimeError) as e:
        print("INTERNAL: positive control failed - a matcher no longer fires on its control: %s" % e)
        return 2
    ctx = engine.Ctx(facts, th, a.tier, facts_rel)
    ctx.stats["positive_controls"] = {k: (v if not isinstance(v, tuple) else list(v)) for k, v in ctl.items()}
    insts, reports = engine.run_property(ctx, prop)
    if a.replay:
        with open(a.replay) as fh:
            want = json.load(fh)
        for i in insts:
            if i.rid == want["rule"] and i.key == want["key"]:
                print(json.dumps(i.to_json(), indent=1))
                return 0 if i.ok else 1
        print("instance %s:%s no longer exists on this tree" % (want["rule"], want["key"]))
        return 0
    extra = {}
    if a.tier == "thorough":
        import thorough
        extra = thorough.run(ctx, prop, insts, reports, repo=a.repo)
        if extra.get("release_profile_audit", {}).get("undischarged"):
            from engine import Inst
            for k in extra["release_profile_audit"]["undischarged_keys"]:
                insts.append(Inst(k.split(":")[0], "release:" + k.split(":", 1)[1], "-", False, "panic site not discharged in the release-profile MIR"))
    p = PROPS[prop]
    return engine.finish(prop, ctx, insts, reports, time.time() - t0, p["decided"], p["not_decided"], extra=extra, seed=seed, scratch=bool(a.repo) and os.path.realpath(a.repo) != os.path.realpath(factsmod.REPO))
