"""Claimed properties: the structural clause decided and the remainder not decided."""
PROPS = {
    "C01": {
        "decided": "Publication discipline of the receiver: the destination name is opened for writing only in the staged-file copy (and nowhere else in the daemon crate), truncating; the copy happens only past the checksum check (or a handler that let the checksum fault pass); DeliveryCode::Complete is produced only when metadata is held and, for a file transfer, Segments::is_complete(EOF size) holds; the checksum and size compared come from the EOF PDU; what is recorded in the segment list is the offset/bytes written.",
        "not_decided": "Equality of the delivered bytes with the source for all contents x fault sequences x schedules; correctness of the segment bookkeeping (C09), of the checksum arithmetic (C14) and of the sender (C07).",
    },
    "C04": {
        "decided": "Finalisation typestate: every call of finalize_receive is reachable only with recv_state == ReceiveData (whole-impl path-sensitive dataflow from every entry point), every successful return from it leaves that phase before returning to the transaction loop, FileStore::process_request has exactly one call site (inside finalisation), and the sender's delivery code / file status originate only in the received Finished PDU or the Incomplete/Unreported defaults.",
        "not_decided": "Effects of a receive transaction re-spawned by the daemon for PDUs that arrive after the transaction ended (behaviour over histories); absence of integrity-failure reports by paths other than re-finalisation.",
    },
    "C10": {
        "decided": "No-partial-file clause: the destination name is written only by finalisation (C01-W), finalisation is reachable only in the receive-data phase (C04-F) and Complete only past the completeness test (C01-K); no call path from cancel/_cancel reaches the publish sink or a mutating filestore call; an EOF carrying an error condition is routed to _cancel and never to finalisation.",
        "not_decided": "That both entities end within their limits and report the cancel condition under loss (handshake liveness, timing).",
    },
}
PROPS.update({
    "C13": {
        "decided": "Dispatch tables and sequencing structure: in process_request / get_not_performed / get_status / as_u8 each action's arm reports only that action's status type and reports Successful only on the Ok edge of that action's own operation; requests are processed in list order inside finalisation only (single call site, receive-data phase), the fail-rest flag is sticky and only set from is_fail() of the response just produced, one response is pushed per request; the responses shown to the receiving user, put in the Finished PDU and handed to the sending user have the same origin.",
        "not_decided": "Filesystem pre/post-conditions per action ('a failed request changes nothing'), CFDP conformance of the precondition choices, behaviour over request sequences.",
    },
    "C18": {
        "decided": "In unacknowledged mode no write that makes an ACK, NAK or keep-alive sendable is reachable without a transmission_mode == Acknowledged test or an (inductively) already-enabled-state guard; the sender queues retransmissions only in the acknowledged arm; the receiver reports Complete only past the completeness test (C01-K); the sender's shutdown after EOF under closure is checked (recorded as a known finding on this tree).",
        "not_decided": "That the closure handshake completes under loss and within limits; timing.",
    },
    "C19": {
        "decided": "While state == Suspended has_pdu_to_send cannot return true in either transaction type and every send_pdu call sits on the select! branch that this precondition disables; no entry point that can run while suspended arms a timer unless state != Suspended (violations on this tree are recorded known findings, keyed per arming site).",
        "not_decided": "Completion after resume, timers counting only un-suspended time (timing).",
    },
})

TECHNIQUE = {
    "C01": "guarded reachability + provenance over MIR (world-set dataflow, who-may-call)",
    "C04": "typestate: interprocedural path-sensitive dataflow over MIR, must-pass-through, who-may-call",
    "C10": "call-graph reachability + typestate dataflow over MIR",
    "C13": "dispatch-table agreement + loop-structure (must-pass-through, sticky flag) rules over MIR",
    "C18": "guarded reachability of enabling writes (interprocedural world-set dataflow)",
    "C19": "return-value-conditioned dataflow of the send gate + select! precondition shape + guarded timer arming",
}

_WIP = "check not built yet in this round (to be claimed or declared not applicable with its reason before the end of the round)"
NOT_APPLICABLE = {
    "C02": "liveness over fault sequences x schedules x timer values: no static argument in reach bounds the interleavings or shows progress; its necessary wiring is decided under C08/C09/C17/C04 where it has a home",
    "C03": "termination within a bound fixed by timeouts and limits quantifies over time and schedules; the structural fragments are far from the property and a timer x state abstraction would be a hand-built model (a different technique)",
}
for _p in ["C%02d" % i for i in range(1, 21)]:
    if _p not in PROPS and _p not in NOT_APPLICABLE:
        NOT_APPLICABLE[_p] = _WIP

PROPS.update({
    "C16": {
        "decided": "The whole mechanism: in every impl of PDUTransport::receive the argument of PDU::decode has, in its backward data slice, the usize projected out of the socket receive's result on the same buffer - if the count did not influence the decoder's input, stale bytes of an earlier datagram would complete a truncated one.",
        "not_decided": "That the bound is used correctly (e.g. `..n` rather than `n..`) beyond being a data dependence; behaviour of transports outside this crate.",
    },
    "C09": {
        "decided": "Two necessary conditions: (1) every overlap count returned by the coalescing helper `merge(v,k)` flows into the new-bytes result of Segments::merge (a dropped count over-reports progress); (2) Segments::is_complete compares the start offset (tuple field 0) of a held range.",
        "not_decided": "Exactness of insert-and-coalesce and of gap enumeration for all sequences (an algorithmic claim over a sorted-disjoint invariant; needs a deductive verifier or exhaustive execution). In particular the pinned tree's gaps() returns an inverted/empty range when the window ends inside held data; no rule here detects that.",
    },
    "C12": {
        "decided": "Sanitiser discipline (lexical paths): every return of get_native_path is root_path.join(normalize_path(..)); every path argument of a std::fs/File/OpenOptions/Utf8Path-probe call in `impl FileStore for NativeFileStore` and in the trait's process_request originates in a get_native_path result; normalize_path's accumulator is only initialised empty (or with a Prefix), extended by Normal components and shortened by pop; the daemon crate touches the filesystem by path only through FileStore (C01-W).",
        "not_decided": "Symlinks, Windows prefixes, semantics of camino/std path APIs (trusted).",
    },
    "C20": {
        "decided": "Every progress field of FaultIndication / ResumeIndication / KeepAlivePDU built in the daemon originates from get_progress() / the counter field; the receiver's counter is written only as `+= Segments::merge(..)`; the sender's counter only by max(old, seek offset + number of bytes read).",
        "not_decided": "Numeric equality for all sizes; exactness of the merge result (C09).",
    },
})
TECHNIQUE.update({
    "C16": "backward data slice (provenance) over pre-coroutine-transform MIR of the async receive body",
    "C09": "def-use (result-consumed) and read-dependence rules over MIR",
    "C12": "taint/sanitiser discipline: provenance of every filesystem-sink argument over MIR",
    "C20": "provenance of progress fields + accepted-update-idiom whitelist over MIR",
})

PROPS.update({
    "C17": {
        "decided": "Fault / handler / timer wiring: the action dispatched in both handle_fault routines is fault_handler_override.get(declared condition).unwrap_or(Cancel); each action's arm runs its own routine (Ignore changes no state, Cancel -> _cancel, Suspend -> suspend, Abandon -> abandon); abandon reaches no transmission or PDU preparation and sets state = Terminated; every limit fault (PositiveLimitReached / NakLimitReached / InactivityDetected) is declared only on a path where the matching counter's limit_reached() returned true, and only through handle_fault; after a non-limit expiry every path re-arms the PDU that timer guards; PDU reception resets (not restarts) the inactivity count in both transaction kinds; in Counter, reset clears the count, nothing else does, the count grows by one (clamped) only under the elapsed >= timeout test, and limit_reached compares count with max_count after accounting for elapsed time.",
        "not_decided": "The arithmetic of expiry times ('never earlier', 'exactly N' over virtual time), pausing while suspended (C19-B known finding), one retransmission per expiry as a count over time.",
    },
})
TECHNIQUE.update({
    "C17": "guarded reachability (limit_reached dominates fault declaration), dispatch-arm/callee tables, must-pass-through re-arm, sibling cross-check, writer whitelist of the counter field",
})

PROPS.update({
    "C06": {
        "decided": "No-panic clause: every potentially panicking construct (MIR overflow/bounds/division Assert terminators of the dev profile, unwrap/expect, panicking::*, Index/slice/Vec APIs that can panic, time arithmetic) in the call graph of every public decoder, of read_length_value_pair/read_type*, VariableID::try_from and of the transport receive path - including the encoders the CRC branch of PDU::decode re-enters - is discharged by a local argument (interval analysis, constant index into a fixed array, from_u8 argument within the enum's discriminants, try_into dominated by the matching length test, insert at 0) or matched against a reviewed table of justified sites; every loop there is iterator-driven or consumes input on each iteration; every allocation there is sized by a value of at most 16 bits.",
        "not_decided": "Canonicity of accepted input beyond what C05's layout/tag agreement implies; panics inside external crates (std, byteorder, num-traits), which are listed in the evidence and trusted.",
    },
    "C14": {
        "decided": "Three necessary conditions plus consumption: a checksum loop driven by a short-read primitive (fill_buf/read) carries state besides the accumulator across reads and that state feeds the accumulator update; the Null arm returns the constant 0 with no computation; consume(n) is given exactly the length of the fill_buf slice; no arithmetic in the function can panic (audit as C06-P1).",
        "not_decided": "The numerical identity itself (endianness, padding value, agreement with the CCSDS definition): a change that keeps the loop's shape but alters a constant is not detected.",
    },
    "C15": {
        "decided": "With the CRC flag present every Ok return of PDU::decode lies behind the true edge of a comparison between (a) crc16_ibm_3740 over the re-encoding of the very PDU being returned, with the re-encoding's own CRC bytes truncated, and (b) from_be_bytes of bytes read from the input reader; the flag tested is the decoded PDU's; the five places that know the CRC width agree.",
        "not_decided": "Which corruptions the CRC-16 catches (polynomial arithmetic) and that decode/encode layouts agree for every PDU (C05).",
    },
})
TECHNIQUE.update({
    "C06": "panic-site audit over MIR (Assert terminators + panicking-API table) with interval analysis and a justified-site table; natural-loop consumption check; allocation-size ranges",
    "C14": "loop-carried-state rule over natural loops of the MIR, constant-arm rule, panic-site audit",
    "C15": "guarded reachability of the accepting return (world-set dataflow) + backward slices of both comparison operands; constant agreement across five sites",
})

PROPS.update({
    "C11": {
        "decided": "Daemon-keeps-serving and id-freshness clauses: no DaemonError variant that forward_pdu or process_primitive (and what they call synchronously, including the From conversions) can construct is matched by an arm of manage_transactions that returns Err or sets the terminate flag; every potentially panicking construct on the daemon task's routing path is discharged or justified (audit as C06-P1; task bodies handed to tokio::spawn are isolated by the runtime and excluded); Daemon.sequence_num is written only through VariableID::get_and_increment in the Put arm, the id built from its result is the one sent back and inserted in the routing table, get_and_increment returns the pre-increment value and increment advances every width by exactly 1; the workspace crates have no static mut / interior-mutable static.",
        "not_decided": "Per-transaction outcomes under interleaving (each delivers its own file), limits ending stray receive transactions (liveness), isolation through the shared filestore directory.",
    },
})
TECHNIQUE.update({
    "C11": "error-variant flow (constructible variants vs. classification of match arms in the MIR), panic-site audit of the daemon task's call graph, single-writer rule for the sequence counter",
})

PROPS.update({
    "C07": {
        "decided": "PDU assembly discipline of both entities: every PDU{header, payload} aggregate takes its header from the side's get_header with the side's direction, the PDU type matching the payload variant and a data-field length computed by encoded_len from that very payload under config.file_size_flag, and is handed to the transport addressed to the peer; get_header wires the seven identifying fields to the like-named configuration fields, the per-PDU fields to its arguments, copies the rest from the cache and is the cache's only writer; a read at an explicit offset is bracketed by stream_position / seek(Start(saved)) on every successful path; the segment reader seeks to the offset it reports, bounds the read by take(length.unwrap_or(config.file_size_segment)) and returns the buffer it filled; MetadataPDU / EndOfFile / file-data / receiver-side Metadata fields are wired to the like-named sources; the EOF checksum is FileChecksum::checksum of the transaction's own file handle (opened from metadata.source_filename), cached only by get_checksum.",
        "not_decided": "Byte/offset arithmetic for all sizes and NAK shapes (segment splitting, end-of-file clipping, tiling without gap or overlap), what the sender does under a given NAK sequence.",
    },
    "C08": {
        "decided": "Provenance and bounds of NAK construction: every SegmentRequestForm the receiver builds is a pair yielded by iterating Segments::gaps(..), the (0,0) marker under metadata.is_none(), or (end of held data before storing, offset of the stored segment) under offset > previous end; a NAK PDU carries naks.drain(..min(len, max_nak_num(config.file_size_flag, config.file_size_segment))) and its scope is first().start_offset / last().end_offset of exactly those requests; the full list is gaps(0, EOF size or end of held data) plus the marker; the NAK queue is only ever replaced by get_all_naks(); Segments::is_complete depends on the first held start (C09-G2).",
        "not_decided": "Exactness of the gap computation itself (C09: on the pinned tree gaps() yields an inverted/empty range when the window ends inside held data - found by reading, not by a rule), ordering of queued requests relative to the scope, timing of deferred/immediate NAKs.",
    },
})
TECHNIQUE.update({
    "C07": "provenance (origin tracing over MIR with ?/clone plumbing peeled) of every PDU aggregate's fields; must-pass-through bracket rule; single-writer rules",
    "C08": "provenance of every SegmentRequestForm / NAK PDU field over MIR + guarded construction (world-set dataflow)",
})

PROPS.update({
    "C05": {
        "decided": "Sibling agreement of encode / decode / encoded_len: (L1) for every field the encoder packs into a byte the decoder extracts it at the same shift with a mask aligned with that shift and covering every value the encoder can put there (value ranges from the field's type, enum discriminants and constant-return summaries), encoder masks cut no possible value, fields packed into one byte do not overlap; (L4) every variant is written with the tag under which the decoder builds it and every tagged variant has a decoder arm; (L3) the length announced by encoded_len is the length of what encode emits, per variant.",
        "not_decided": "Equality of all non-bit-field payload for all values (ordering of same-typed LV items, value-dependent truncation beyond the stated wire limits); canonicity of accepted input.",
    },
})
TECHNIQUE.update({
    "C05": "codec extraction from MIR expressions: bit-field leaves of encoders vs masked extractions in the backward slice of each decoded field, inverse tag relations, symbolic length forms",
})

PROPS["C09"] = {
    "decided": "Five necessary conditions of exact bookkeeping: (G1) every overlap count returned by the coalescing helper merge(v,k) flows into the new-bytes result of Segments::merge; (G2) Segments::is_complete compares the start offset of a held range; (G3) in Segments::gaps a gap whose end is the window bound is pushed only under start-of-gap < window end (no list invariant can order a value against a free parameter); (G4) the sorted range list is edited only by order-preserving operations (insert, push, remove, in-place edits of one range); (G5) the running start of the next gap is the window start, a max with it, the end of the range found to begin exactly at the window start, or the end of the range just passed.",
    "not_decided": "Exactness of insert-and-coalesce and of gap enumeration for all sequences (an algorithmic claim over the sorted-disjoint invariant; needs a deductive verifier or exhaustive execution).",
}
PROPS["C16"] = {
    "decided": "The whole mechanism: in every impl of PDUTransport::receive the window of the buffer handed to PDU::decode is bounded above by the usize returned by the socket receive on that same buffer (..n, ..min(n, _), take(n)); a mere data dependence on the count is not accepted.",
    "not_decided": "Behaviour of transports outside this crate (e.g. test transports).",
}
PROPS["C08"]["decided"] = PROPS["C08"]["decided"].replace("the NAK queue is only ever replaced by get_all_naks();", "the NAK queue is only ever replaced by get_all_naks() and requests leave it only by drain in send_naks (mutator whitelist); after EOF with has_naks() every path queues get_all_naks() or schedules a delayed check of [0, EOF size); gaps bounded by the window end are pushed only under start < end and never start before the window (C09-G3/G5);")
TECHNIQUE["C09"] = "def-use, read-dependence, guarded construction (world-set dataflow), mutator whitelist and provenance rules over MIR"
TECHNIQUE["C16"] = "provenance of the decode window's bound over pre-coroutine-transform MIR of the async receive body"

_ADD = {
    "C16": " No decoder keeps state between calls in a static or thread-local buffer (C11-I4). An inclusive range ending at the byte count takes one byte too many (D).",
    "C01": " The seek dominates the write and the write dominates the record on every path (no conditional seek / skipped write); the held-range list is never reset or replaced (C09-G8). A staging file is opened only when none is held (H); the file status Retained is produced only after io::copy(staged file -> opened destination) returned (P). With the CRC option on, every kind of PDU - file data included - is accepted only behind the CRC comparison (C15-M), and transaction ids come from a wrapping read-and-increment so that two live transactions are not cross-wired under one id (C11-I3). The sender's segment reader and cursor discipline (C07-S3, S4, S7) are necessary conditions here too.",
    "C04": " The held-range list is only changed by recording a written segment (C09-G8). The report given to the sending user with a received Finished PDU is generated after the transaction took over that PDU's condition (S2). Outside the cancel routine the Finished PDU is built only right after finalisation, so a late PDU cannot rebuild the reported outcome (C13-Q3). Per entry point of a transaction, the kinds of error its own code can construct do not grow (E): an error from a handler ends the task of a still-addressed transaction, after which the daemon starts a fresh one under the same id.",
    "C05": " Items are self-delimiting (L2): a decoder that consults the end of its input (short read, read_to_end) is run only in tail position of its reader. No decoder passes a received name or text through a lossy or normalising conversion (C06-P4). The nested item types an encoder delegates to are exactly those its decoder delegates to (L6); no encoder clamps, saturates, sorts or drops part of a field (L7); a field decoded from bits that the encoder fills from something else is reported (L1). EndOfFile::decode reads the fault-location TLV exactly on the conditions other than 'No error' (L8). Wire integers are decoded unsigned: no signed read, no sign-extending cast in a decoder (L9).",
    "C06": " No decoder uses a lossy or normalising text or path conversion (C06-P4); no decoder decides a value from a short read and end-of-input-delimited decoders run only in tail position (C05-L2) - two necessary conditions of 'whatever is accepted is canonical'. No decoder edits (pop, truncate, retain ...) the octets it has read before they become the decoded value (P4).",
    "C07": " Queued retransmission requests are de-duplicated on the whole request (S6); in the SendData phase the EOF is prepared only under cursor == file length (S7); prepare_eof always stores a fresh EOF built from the current condition (C10-K5). No integer cast in cfdp-daemon can truncate an offset / length / size (S8, narrowing `as` must be provably lossless); the pending-EOF mark is cleared only by handing the EOF to the transport (C10-K7); file data is handed to the transport only in the SendData / SendEof phases (C10-K8); a new transaction is configured with the peer's entity configuration (C11-I6). has_pdu_to_send is always true in the SendMetadata / SendData phases of an active transaction (S9). No adaptor that can drop a request lies between a received NAK's list and the retransmission queue (S10). The file checksum, which moves the source file's cursor, is computed only where the EOF is prepared (S11).",
    "C08": " max_nak_num is (budget - fixed part of the NAK's encoded_len) / encoded_len of one request (N7); a reported gap never extends beyond the window (C09-G7). A prompt makes the receiver refresh / send NAKs only on the Nak arm of its kind (N8); pending delayed gap checks are only appended, polled and drained, never re-timed or re-aimed (N9); no narrowing cast (C07-S8). Every delayed check drained on expiry is carried out: no path from the drain to the end of the timeout handler bypasses the gap computation over the drained windows (N10). The scope of a NAK spans all of its requests: smallest start, largest end (N2; the queue is not in offset order). The NAK timer is armed only where a NAK was sent, on resume, or under Immediate / after EOF (N11).",
    "C09": " (G6) the coalescing helper is applied at the index whose end was just extended; (G7) a gap ending at a held range's start is pushed only under that start < window end; (G8) the receive transaction's list is mutated only by Segments::merge in store_file_data. An end extended through an index in the middle of the list is followed on every path by the coalescing helper (G6, converse); the byte counter is written only by adding the insert operation's result (C20-P2). No decision of the insert operation compares the number of held ranges with a bound (G9).",
    "C10": " On the Cancelled arm of the timeout dispatch no fault handler runs (abandon instead, K4); the sender's prepare_eof always stores a fresh EOF carrying the current condition (K5); until_timeout returns the timer deadline in every phase in which handle_timeout acts (K6). The pending-EOF mark is cleared only where the EOF was handed to the transport (K7); file data goes out only in the SendData / SendEof phases, never in Cancelled (K8). A non-limit expiry re-arms with restart, never reset, so the limit is reached (C17-W). In acknowledged mode the send step never ends a sender whose phase is Cancelled (K9). From where an EOF (receiver) or Finished (sender) is bound, every successful path adopts its condition (K10).",
    "C11": " The id a transaction task returns for reaping, the transaction's id(), the configuration built at spawn and forward_pdu's routing key are all (source entity, sequence number) of the PDU header / of the allocated id (I5). The entity configuration of a new transaction is looked up under the Put's destination entity / the PDU's source entity (I6); PDUs and commands are handed to transaction tasks only with the waiting send, never try_send (I7). Every received PDU resets the inactivity timer of the transaction it is routed to, so a transaction started by a stray PDU ends by its limits (C17-H7). Indications too are handed to the user with the waiting send (I7, whole crate). The transport of a transaction started by a received PDU is looked up under the PDU's peer for its direction (I8). A failed receive() never ends pdu_handler (I9); a transaction task awaits its transport permit only as a branch of its select (I10).",
    "C12": " The accumulator is initialised from a component only under the test that the component is a Prefix. A sanitised path is not edited afterwards (with_extension, parent, join, ...) before it reaches a filesystem call (R2).",
    "C13": " Each operation in process_request sits behind a probe (exists / is_file / is_dir) of the request's first name. replace_file has read file 2 completely before it overwrites file 1 (Q4). Q2 is shape-independent: it follows the request iterator, the element each next() yields, is_fail() of each response and the branches on it (flag or break). No filestore operation uses a primitive that silently creates missing ancestors (Q5). Each action runs only under its own precondition on the named objects (Q1: exists / is_file / is_dir facts at the operation). The fault handler's verdict is fixed by the action taken and obeyed by its callers (C17-H9/H10), so no request runs for a delivery the handler just cancelled.",
    "C14": " The short-read loop is left only on the empty read (E). No path from the read to consume / the next iteration bypasses the code that advances the carried word position (K). Blocks are cut into 4-byte words only where the carried position is 0 or no bytes remain (A).",
    "C15": " No decoder normalises a received name or text, so the re-encoding the CRC is computed over is the received encoding (C06-P4). The re-encoding is shortened exactly once before the CRC is computed and PDU::encode computes the CRC over everything written before it (M / W). No encoder alters the value it writes (C05-L7), so the re-encoding of a corrupted PDU cannot reproduce the received octets. The CRC is verified on the re-encoding of what was decoded, so a corrupted PDU is accepted exactly when encode(decode(x)) gives back the received octets for a corrupted x: the codec-agreement rules C05-L1 (bit layout, decoded-only fields) and C05-L6 (nesting) are therefore also run for C15. The accepting comparison is made on the received and the computed CRC themselves, not on a transformed value (M). PDU::encode hands `self.header` and `self.payload` themselves to their encoders (E) and no encoder overwrites a field of the value it encodes (C05-L7).",
    "C17": " In send_naks the NAK count is reset when data arrived since the previous NAK and merely restarted otherwise (H8); Timer::new is called with the like-named configuration fields, builds each counter from the like-named parameters, each restart_/reset_ helper drives the like-named counter, Counter::restart runs update() before un-pausing (T2); Counter::start is used only on freshly created counters (C19-C); plus C10-K4/K6. An expiry of one timer never hides the expiry of another: each poll of a timer is reachable from every outcome of the preceding tests on other timers (W2). The NAK-progress test of H8 reads the receiver's progress counter, which grows exactly by the newly held bytes (C20-P2). The receiver's handler returns true exactly on the Ignore arm (H9) and every caller branches on the verdict (H10); the sender's inactivity reset on reception is conditional on the phase only (H7). Outside the Cancelled phase the timeout dispatch never abandons directly (H11); the pending flag of EOF / Finished is raised only under the ACK timer's expiry (W3).",
    "C18": " In unacknowledged mode prepare_finished is reached only on the true edge of 'metadata held and closure requested' with default false (U5). The sender cannot stall before its EOF: has_pdu_to_send is always true in the SendMetadata / SendData phases (C07-S9).",
    "C19": " Counter::start (un-pause keeping the old start time) is only applied to a counter created in the same function, never to the limit timers (C). Counter::restart accounts for elapsed time before un-pausing, so suspended time is not counted (C17-T2). No decision in the PDU-processing path reads the suspension state except to gate timer arming (R); resume re-arms on every path of the phase each timer the phase relies on, and the receiver's NAK timer / list whenever NAKs apply (D). Commands - Suspend and Resume among them - reach a busy transaction: they are handed over with the waiting send (C11-I7).",
    "C20": " The overlap counts of the coalescing helper reach the new-bytes result and the helper is applied at the extended index (C09-G1/G6). Every merge() on the receiver's range list is followed on every normal path by the counter update (P4); a first-pass segment is sent with the progress update on (P5). No transaction field other than the counter holds a copy of the progress figure (P6). The list of held ranges is never reset while the counter is kept (C09-G8).",
}
for _k, _v in _ADD.items():
    if _v.strip() not in PROPS[_k]["decided"]:
        PROPS[_k]["decided"] = PROPS[_k]["decided"].rstrip() + _v
