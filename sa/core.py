"""Program model over the extracted facts: functions, CFG, expression
reconstruction (origin tracing), call graph, mod/ref summaries."""
import re
from collections import defaultdict

# ------------------------------------------------------------------ paths


def strip_generics(p):
    """`a::B::<T>::f` -> `a::B::f` (balanced angle brackets after `::`); qualified
    paths `<X as Tr>` are kept (with generics stripped inside)."""
    out = []
    i = 0
    n = len(p)
    while i < n:
        if p[i] == "<" and (i == 0 or p.startswith("::<", i - 2)) :
            depth = 0
            j = i
            while j < n:
                if p[j] == "<":
                    depth += 1
                elif p[j] == ">" and p[j - 1] != "-":
                    depth -= 1
                    if depth == 0:
                        break
                j += 1
            inner = p[i + 1 : j]
            if inner.startswith("impl ") and " for " in inner:
                a, b = inner[5:].split(" for ", 1)
                out.append("<impl " + strip_generics(a) + " for " + strip_generics(b) + ">")
            elif _top_level_as(inner):
                a, b = _split_as(inner)
                out.append("<" + strip_generics(a) + " as " + strip_generics(b) + ">")
            else:
                # plain generic args: drop, together with the preceding `::`
                if out[-2:] == [":", ":"]:
                    out.pop()
                    out.pop()
            i = j + 1
        elif p[i] == "<":
            # generic args directly after a name (types): drop
            depth = 0
            j = i
            while j < n:
                if p[j] == "<":
                    depth += 1
                elif p[j] == ">" and p[j - 1] != "-":
                    depth -= 1
                    if depth == 0:
                        break
                j += 1
            i = j + 1
        else:
            out.append(p[i])
            i += 1
    return "".join(out)


def _top_level_as(s):
    return _split_as(s) is not None


def _split_as(s):
    depth = 0
    i = 0
    while i < len(s):
        c = s[i]
        if c in "<([":
            depth += 1
        elif c in ")]":
            depth -= 1
        elif c == ">" and s[i - 1] != "-":
            depth -= 1
        elif depth == 0 and s.startswith(" as ", i):
            return s[:i], s[i + 4 :]
        i += 1
    return None


STD_ENUMS = {
    "std::option::Option": {0: "None", 1: "Some"},
    "core::option::Option": {0: "None", 1: "Some"},
    "std::result::Result": {0: "Ok", 1: "Err"},
    "core::result::Result": {0: "Ok", 1: "Err"},
    "std::ops::ControlFlow": {0: "Continue", 1: "Break"},
    "core::ops::ControlFlow": {0: "Continue", 1: "Break"},
    "std::task::Poll": {0: "Ready", 1: "Pending"},
    "core::task::Poll": {0: "Ready", 1: "Pending"},
    "std::cmp::Ordering": {-1: "Less", 255: "Less", 0: "Equal", 1: "Greater"},
    "core::cmp::Ordering": {-1: "Less", 255: "Less", 0: "Equal", 1: "Greater"},
    "std::collections::hash_map::Entry": {0: "Occupied", 1: "Vacant"},
    "camino::Utf8Component": {0: "Prefix", 1: "RootDir", 2: "CurDir", 3: "ParentDir", 4: "Normal"},
}


def ty_head(ty):
    """Type constructor of a type string, references stripped."""
    t = ty.strip()
    while True:
        if t.startswith("&"):
            t = t[1:].lstrip()
            if t.startswith("'"):
                t = t.split(" ", 1)[1] if " " in t else t
            if t.startswith("mut "):
                t = t[4:]
            continue
        break
    m = re.match(r"[A-Za-z0-9_:]+", t)
    return m.group(0) if m else t


# ------------------------------------------------------------------ model


class Fn:
    def __init__(self, prog, crate, raw):
        self.prog = prog
        self.crate = crate
        self.raw = raw
        self.path = raw["path"]
        self.norm = strip_generics(raw["path"])
        self.name = raw["name"]
        self.kind = raw["kind"]
        self.file = raw["span"]["file"]
        self.line = raw["span"]["line"]
        self.eline = raw["body_span"]["eline"]
        self.from_exp = raw["span"]["exp"]
        self.mac = raw["span"].get("mac")
        self.root = strip_generics(raw["root"]) if "root" in raw else None
        self.parent = strip_generics(raw["parent"]) if "parent" in raw else None
        self.impl_self_ty = raw.get("impl_self_ty")
        self.impl_self_adt = raw.get("impl_self_adt")
        self.impl_trait = raw.get("impl_trait")
        self.in_trait = raw.get("in_trait")
        self.vis = raw.get("vis")
        self.arg_count = raw["arg_count"]
        self.locals = raw["locals"]
        self.blocks = raw["blocks"]
        self.coroutine = raw.get("coroutine")
        # debug names: local/place -> name
        self.var_places = []  # (name, local, proj list)
        for v in raw["vars"]:
            val = v["value"]
            if "local" in val:
                self.var_places.append((v["name"], val["local"], val["proj"]))
        # shadowed names: the 2nd, 3rd .. distinct local carrying a name is rendered
        # `name__2`, `name__3` so that a name denotes one local (macro-generated names kept)
        firsts = {}
        for nm, l, pj in sorted(self.var_places, key=lambda x: x[1]):
            if not pj:
                firsts.setdefault(nm, [])
                if l not in firsts[nm]:
                    firsts[nm].append(l)
        ren = []
        for nm, l, pj in self.var_places:
            if not pj and len(firsts.get(nm, ())) > 1 and firsts[nm].index(l) > 0 and not nm.startswith("__") and nm != "self":
                ren.append(("%s__%d" % (nm, firsts[nm].index(l) + 1), l, pj))
            else:
                ren.append((nm, l, pj))
        self.var_places = ren
        self.var_places.sort(key=lambda x: -len(x[2]))
        self._defs = None
        self._succ = None
        self._pred = None
        self._expr_cache = {}
        self._new_let = {}

    def __repr__(self):
        return "<Fn %s>" % self.norm

    def is_new_let(self, local):
        """A `let` the pinned tree does not have in this function (by name): immutable, defined once, either
        computed (an expression / call result given a name) or a plain alias of a field path of `self` or of a
        parameter.  Such a variable is looked through, so that introducing a name for a sub-expression does
        not change what the rules see."""
        key = self.norm if self.kind != "Closure" else (self.root or self.norm)
        known = CANON_VARS.get(key)
        if known is None:
            return False
        if local in self._new_let:
            return self._new_let[local]
        res = False
        nm = None
        for n_, l, pj in self.var_places:
            if l == local and not pj:
                nm = re.sub(r"__\d+$", "", n_)
        ds0 = self.defs(local)
        if nm is not None and local > self.arg_count and len(ds0) == 1 and ds0[0][0] == "assign" and self.blocks[ds0[0][1]]["stmts"][ds0[0][2]].get("inlined_arg") and not self.locals[local]["ty"].startswith("&") and not self.locals[local]["mut"]:
            # the by-value parameter of a spliced helper: a name for the argument expression
            self._new_let[local] = True
            return True
        if nm is not None and nm not in known and local > self.arg_count and not self.locals[local]["mut"]:
            ds = [d for d in self.defs(local)]
            if len(ds) > 1 and all(d[0] in ("assign", "call") for d in ds):
                # `let x = if c { a } else { b };` - one assignment per branch of an immutable variable, at least
                # one of them computed (a destructuring `let (a, b) = match v {..}` that merely moves fields stays
                # a variable: it is a binding, not a named expression)
                self._new_let[local] = False  # cycle guard
                res = any(
                    d[0] == "call"
                    or d[3]["k"] in ("binop", "unop", "cast", "agg", "repeat")
                    or (d[3]["k"] == "use" and d[3]["op"].get("k") == "const")
                    # a branch that yields another named expression (`None => last_segment_end`)
                    or (d[3]["k"] == "use" and d[3]["op"].get("k") in ("copy", "move") and not d[3]["op"]["place"]["proj"] and self.is_new_let(d[3]["op"]["place"]["local"]))
                    for d in ds
                )
            elif len(ds) == 1 and ds[0][0] in ("assign", "call"):
                if ds[0][0] == "call":
                    res = True
                else:
                    rv = ds[0][3]
                    if rv["k"] in ("binop", "unop", "cast", "agg", "repeat"):
                        res = True
                    elif rv["k"] in ("use", "ref") and (rv.get("op", {}).get("k") in ("copy", "move") or rv["k"] == "ref"):
                        pl = rv["op"]["place"] if rv["k"] == "use" else rv["place"]
                        root_is_param = 1 <= pl["local"] <= self.arg_count
                        pure_fields = all(e.get("k") in ("deref", "field") for e in pl["proj"])
                        root_is_temp = pl["local"] > self.arg_count and not self.locals[pl["local"]]["user"]
                        if root_is_temp:
                            # only value temporaries (checked arithmetic, call results); a tuple built to be
                            # destructured (`let (a, b) = match v {..}`) yields bindings, which stay variables
                            tds = self.defs(pl["local"])
                            root_is_temp = bool(tds) and all((d[0] == "call") or (d[0] == "assign" and d[3]["k"] in ("binop", "cast", "unop")) for d in tds)
                        # an alias of a field path of self / a parameter, or the value of a compiler temporary
                        # (the result of checked arithmetic, of a call ...)
                        root_is_binding = pl["local"] > self.arg_count and self.locals[pl["local"]]["user"] and not self.locals[pl["local"]]["mut"]
                        # ... or a field of an immutable binding (`let size = eof.file_size;`)
                        res = bool((root_is_param and pure_fields and pl["proj"]) or (root_is_temp and pure_fields) or (root_is_binding and pure_fields and pl["proj"] and (rv["k"] == "use" or not rv.get("mutbl"))))
                    elif rv["k"] == "use" and rv["op"].get("k") == "const":
                        res = True
        self._new_let[local] = res
        return res

    def is_desugar_binding(self, local):
        """`val` / `residual` bound by the desugaring of `?` (compiler-made, not a variable the author
        wrote): named so, and defined once as the Continue / Break payload of a Try::branch result."""
        nm = None
        for n_, l, pj in self.var_places:
            if l == local and not pj:
                nm = re.sub(r"__\d+$", "", n_)
        if nm not in ("val", "residual"):
            return False
        ds = self.defs(local)
        if len(ds) != 1 or ds[0][0] != "assign" or ds[0][3].get("k") != "use":
            return False
        op = ds[0][3]["op"]
        if op.get("k") not in ("move", "copy"):
            return False
        return any(e.get("k") == "downcast" and e.get("variant") in ("Continue", "Break") for e in op["place"]["proj"])

    @property
    def where(self):
        return "%s:%d" % (rel(self.file), self.line)

    # ---- CFG (cleanup blocks and unwind edges ignored)
    def succs(self, b):
        if self._succ is None:
            self._succ = [self._succs(i) for i in range(len(self.blocks))]
        return self._succ[b]

    def _succs(self, b):
        t = self.blocks[b]["term"]
        k = t["k"]
        if k == "switch":
            out = [(tb, ("v", v)) for v, tb in t["targets"]]
            out.append((t["otherwise"], ("else", tuple(v for v, _ in t["targets"]))))
            return out
        if k in ("goto", "drop", "assert", "false_unwind", "yield"):
            return [(t["target"], None)]
        if k == "false_edge":
            return [(t["target"], None)]
        if k == "call":
            return [(t["target"], None)] if t["target"] is not None else []
        return []

    def preds(self, b):
        if self._pred is None:
            self._pred = defaultdict(list)
            for i in range(len(self.blocks)):
                if self.blocks[i]["cleanup"]:
                    continue
                for s, lab in self.succs(i):
                    self._pred[s].append((i, lab))
        return self._pred[b]

    def reachable(self, start=0, avoid=()):
        seen = set()
        st = [start]
        avoid = set(avoid)
        while st:
            b = st.pop()
            if b in seen or b in avoid:
                continue
            seen.add(b)
            for s, _ in self.succs(b):
                st.append(s)
        return seen

    def live_blocks(self):
        return sorted(self.reachable(0))

    def return_blocks(self):
        return [b for b in self.live_blocks() if self.blocks[b]["term"]["k"] == "return"]

    # ---- definitions
    def defs(self, local):
        """List of definition sites of a whole local: ('assign', bb, idx, rv) |
        ('call', bb, term) | ('yield', bb, term) | ('arg',)"""
        if self._defs is None:
            d = defaultdict(list)
            for i in range(1, self.arg_count + 1):
                d[i].append(("arg", i))
            for b in self.live_blocks():
                blk = self.blocks[b]
                for j, s in enumerate(blk["stmts"]):
                    if s["k"] == "assign":
                        p = s["place"]
                        if not p["proj"]:
                            d[p["local"]].append(("assign", b, j, s["rv"]))
                        else:
                            d[p["local"]].append(("partial", b, j, s))
                    elif s["k"] == "setdiscr":
                        d[s["place"]["local"]].append(("partial", b, j, s))
                t = blk["term"]
                if t["k"] == "call":
                    p = t["dest"]
                    if not p["proj"]:
                        d[p["local"]].append(("call", b, t))
                    else:
                        d[p["local"]].append(("partial", b, -1, t))
                elif t["k"] == "yield":
                    p = t["resume_arg"]
                    d[p["local"]].append(("yield", b, t))
            self._defs = d
        return self._defs[local]

    # ---- place rendering
    def place_str(self, place):
        return place_to_str(self, place["local"], place["proj"])

    def local_ty(self, i):
        return self.locals[i]["ty"]

    def all_calls(self):
        for b in self.live_blocks():
            t = self.blocks[b]["term"]
            if t["k"] == "call":
                yield b, t


def rel(path):
    for m in ("/cfdp-core/", "/cfdp-daemon/"):
        i = path.find(m)
        if i >= 0:
            return path[i + 1 :]
    return path


def proj_str(proj):
    s = ""
    for e in proj:
        k = e["k"]
        if k == "deref":
            s += ".*"
        elif k == "field":
            s += "." + e["name"]
        elif k == "downcast":
            s += "@" + e["variant"]
        elif k == "index":
            s += "[_%d]" % e["local"]
        elif k == "cindex":
            s += "[%s%d]" % ("-" if e["from_end"] else "", e["offset"])
        elif k == "subslice":
            s += "[%d..%s%d]" % (e["from"], "-" if e["from_end"] else "", e["to"])
        else:
            s += ".?"
    return s


def place_to_str(fn, local, proj):
    """Render with debug-variable names where a prefix matches; `self.*` deref of
    the self reference is rendered as `self`."""
    for name, vl, vproj in fn.var_places:
        if vl == local and len(vproj) <= len(proj) and all(
            _same_elem(a, b) for a, b in zip(vproj, proj)
        ):
            rest = proj[len(vproj) :]
            s = name + proj_str(rest)
            return _norm_self(s)
    return "_%d%s" % (local, proj_str(proj))


def _same_elem(a, b):
    if a["k"] != b["k"]:
        return False
    if a["k"] == "field":
        return a["idx"] == b["idx"]
    if a["k"] == "downcast":
        return a["vidx"] == b["vidx"]
    return True


def _norm_self(s):
    # `self.*` -> `self` ; a by-reference upvar `transaction.*` -> `transaction`
    m = re.match(r"^([A-Za-z_][A-Za-z0-9_]*)\.\*(.*)$", s)
    if m:
        return m.group(1) + m.group(2)
    return s


class Program:
    def __init__(self, facts):
        self.facts = facts
        self.fns = {}
        self.by_norm = {}
        self.adts = {}
        self.statics = []
        self.impls = []
        for crate, f in facts.items():
            for a in f["adts"]:
                self.adts[strip_generics(a["path"])] = a
            for s in f["statics"]:
                self.statics.append(s)
            for im in f["impls"]:
                self.impls.append(im)
            for b in f["bodies"]:
                fn = Fn(self, crate, b)
                self.fns[fn.path] = fn
                self.by_norm[fn.norm] = fn
        self._callers = None
        self._closures_of = defaultdict(list)
        for fn in self.by_norm.values():
            if fn.parent:
                self._closures_of[fn.parent].append(fn)
        self._mod = None
        self._inline_cache = {}

    # ---- lookup
    def fn(self, norm):
        return self.by_norm.get(norm)

    def find(self, suffix):
        """Functions whose normalised path ends with `suffix` (at a `::` boundary)."""
        out = [
            f
            for n, f in self.by_norm.items()
            if n == suffix or n.endswith("::" + suffix) or n.endswith(">::" + suffix)
        ]
        return out

    def method(self, adt_suffix, name, trait=None):
        out = []
        for f in self.by_norm.values():
            if f.name != name or f.kind != "AssocFn":
                continue
            a = f.impl_self_adt or ""
            if not (a == adt_suffix or a.endswith("::" + adt_suffix)):
                continue
            if trait is None:
                if f.impl_trait is None:
                    out.append(f)
            else:
                t = f.impl_trait or ""
                if t == trait or t.endswith("::" + trait):
                    out.append(f)
        return out

    def closures_of(self, fn):
        """All closures nested (transitively) in fn."""
        out = []
        st = [fn.norm]
        while st:
            p = st.pop()
            for c in self._closures_of.get(p, []):
                out.append(c)
                st.append(c.norm)
        return out

    def adt_of_type(self, ty):
        h = ty_head(ty)
        a = self.adts.get(h)
        if a is None and "::" in h and h.split("::")[0] in ("cfdp_core", "cfdp_daemon"):
            # re-exported path (`cfdp_core::pdu::X` for `cfdp_core::pdu::header::X`)
            last = h.split("::")[-1]
            c = [v for k, v in self.adts.items() if k.split("::")[-1] == last and k.split("::")[0] == h.split("::")[0]]
            if len(c) == 1:
                a = c[0]
        if a is None and h and h[0].isalpha() and not h.startswith(("std::", "core::", "alloc::")):
            # types of the crate being compiled are printed without the crate name
            c = [v for k, v in self.adts.items() if k.endswith("::" + h)]
            if len(c) == 1:
                a = c[0]
        return a

    def variant_names(self, ty):
        """{discr value: name} for the enum type string, or None."""
        h = ty_head(ty)
        a = self.adt_of_type(ty)
        if a and a["kind"] == "Enum":
            return {v["discr"]: v["name"] for v in a["variants"]}
        if h in STD_ENUMS:
            return dict(STD_ENUMS[h])
        return None

    def all_variants(self, ty):
        vn = self.variant_names(ty)
        return set(vn.values()) if vn else None

    # ---- call graph
    def callee_of(self, term):
        """(declared_norm, resolved_norm or None, info) of a call terminator."""
        f = term["func"]
        if "fn" in f:
            d = strip_generics(f["fn"])
            r = strip_generics(f["resolved"]) if "resolved" in f else None
            return d, r, f
        return None, None, f

    def call_targets(self, term):
        """Local functions a call may dispatch to."""
        d, r, f = self.callee_of(term)
        out = []
        if r and r in self.by_norm:
            out.append(self.by_norm[r])
        elif d and d in self.by_norm:
            out.append(self.by_norm[d])
        elif d and f.get("fn_trait"):
            # unresolved trait-method call: link to every local impl of that method
            tr = strip_generics(f["fn_trait"])
            nm = f["fn_name"]
            for g in self.by_norm.values():
                if g.name == nm and g.impl_trait and strip_generics(g.impl_trait) == tr:
                    out.append(g)
        return out

    def callers(self, fn):
        if self._callers is None:
            self._callers = defaultdict(list)
            for g in self.by_norm.values():
                for b, t in g.all_calls():
                    for tg in self.call_targets(t):
                        self._callers[tg.norm].append((g, b, t))
        return self._callers[fn.norm]

    def reach(self, roots, through_closures=True, stop=None):
        """Set of local functions reachable from roots via resolved calls and
        closures created inside them."""
        seen = {}
        st = [(r, None) for r in roots]
        while st:
            f, via = st.pop()
            if f.norm in seen:
                continue
            seen[f.norm] = via
            if stop and stop(f):
                continue
            for b, t in f.all_calls():
                for tg in self.call_targets(t):
                    if tg.norm not in seen:
                        st.append((tg, (f.norm, t["span"]["line"])))
            if through_closures:
                for c in self._closures_of.get(f.norm, []):
                    if c.norm not in seen:
                        st.append((c, (f.norm, c.line)))
        return seen

    def chain(self, seen, norm):
        out = []
        cur = norm
        while cur is not None:
            via = seen.get(cur)
            out.append(cur)
            cur = via[0] if via else None
        return list(reversed(out))


# ------------------------------------------------------------------ expressions
# Expression trees (tuples):
#  ('const', val, ty) | ('fn', norm) | ('uneval', path)
#  ('place', str, ty)             - a memory place that is not a single-def temp
#  ('arg', i, name)               - function argument (whole)
#  ('proj', base_expr, projstr)   - projection out of a computed value
#  ('ref', mut, expr) | ('binop', op, a, b) | ('unop', op, a) | ('cast', kind, a, ty)
#  ('discr', expr) | ('agg', kind, adt, variant, fields, ops)
#  ('call', decl, resolved, args, (bb, line), info)
#  ('phi', local, [exprs]) | ('cycle', local) | ('yield',) | ('other', dbg)

MAX_DEPTH = 40


# ------------------------------------------------------------------ pin-guided canonical forms
# Set by the engine from the pin table (sa/known_fns.json); empty = no canonicalisation (used when the
# pin table itself is generated).  CANON_BINOPS[fn] = keys of the two-operand expressions the function
# has at the pin; CANON_VARS[fn] = names of its user variables at the pin.
CANON_BINOPS = {}
CANON_VARS = {}
LOOK_THROUGH_DEFAULT = [True]
FLAG_TEMPS_AS_PLACES = True  # boolean temporaries assigned on several paths stay places (the dataflow tracks them)
INT_TYPES = ("u8", "u16", "u32", "u64", "u128", "usize", "i8", "i16", "i32", "i64", "i128", "isize", "bool")
COMMUTATIVE = ("call:min", "call:max", "call:eq", "call:ne", "Add", "Mul", "BitAnd", "BitOr", "BitXor", "Eq", "Ne", "AddWithOverflow", "MulWithOverflow", "AddUnchecked", "MulUnchecked")
MIRRORED = {"Lt": "Gt", "Gt": "Lt", "Le": "Ge", "Ge": "Le", "call:lt": "call:gt", "call:gt": "call:lt", "call:le": "call:ge", "call:ge": "call:le"}
CMP_ALIASES = {"core::cmp::min": "core::cmp::Ord::min", "std::cmp::min": "core::cmp::Ord::min", "core::cmp::max": "core::cmp::Ord::max", "std::cmp::max": "core::cmp::Ord::max", "std::cmp::Ord::min": "core::cmp::Ord::min", "std::cmp::Ord::max": "core::cmp::Ord::max"}


def set_canon(binops, vars_):
    CANON_BINOPS.clear()
    CANON_BINOPS.update(binops or {})
    CANON_VARS.clear()
    CANON_VARS.update(vars_ or {})


def binop_key(op, a, b):
    return "%s|%s|%s" % (op, expr_str(a)[:160], expr_str(b)[:160])


def _canon_binop(fn, op, a, b):
    """`b op' a` when the pinned tree wrote the same computation that way (commuted operands, mirrored
    comparison); otherwise as written."""
    keys = CANON_BINOPS.get(fn.root or fn.norm) if fn.kind == "Closure" else CANON_BINOPS.get(fn.norm)
    if keys is None and fn.kind == "Closure":
        keys = CANON_BINOPS.get(fn.norm)
    if not keys:
        return op, a, b
    op2 = op if op in COMMUTATIVE else MIRRORED.get(op)
    if op2 is None:
        return op, a, b
    if binop_key(op, a, b) in keys:
        return op, a, b
    if binop_key(op2, b, a) in keys:
        return op2, b, a
    return op, a, b


class ExprBuilder:
    def __init__(self, prog, fn, inline=True, user_stop=False, look_through=None):
        self.prog = prog
        self.fn = fn
        self.inline = inline
        self.user_stop = user_stop  # keep user variables as named places
        # look through `let`s the pinned tree does not have (is_new_let); None = the engine's current mode
        self.look_through = LOOK_THROUGH_DEFAULT[0] if look_through is None else look_through
        self.memo = {}

    def operand(self, o, depth=0, stack=()):
        k = o["k"]
        if k in ("copy", "move"):
            return self.place(o["place"], depth, stack)
        if k == "const":
            if "fn" in o:
                return ("fn", strip_generics(o["fn"]), o)
            if "uneval" in o:
                return ("uneval", o["uneval"])
            return ("const", o.get("val", o.get("dbg")), o["ty"])
        return ("other", k)

    def place(self, p, depth=0, stack=()):
        local = p["local"]
        proj = p["proj"]
        fn = self.fn
        # named variable places (self.x, user vars with projections) stay places
        base = self.local(local, depth, stack)
        if base[0] == "place" and base[1] == "_%d" % local:
            return ("place", fn.place_str(p), p["ty"])
        if not proj:
            return base
        if base[0] in ("place", "arg"):
            own = place_to_str(fn, local, [])
            if base[0] == "place" and base[1] != own and own.startswith("_") and not base[1].startswith("_") and proj and proj[0]["k"] != "deref":
                # an unnamed temporary that merely holds a named variable: project the variable
                return ("place", _norm_self(base[1] + proj_str(proj)), p["ty"])
            return ("place", fn.place_str(p), p["ty"])
        # projection through a reference to a place: `(*_4).f` with _4 = &self.x
        e = base
        rest = list(proj)
        while rest and rest[0]["k"] == "deref" and e[0] == "ref":
            e = e[2]
            rest = rest[1:]
        if e[0] == "place":
            s = e[1] + proj_str(rest)
            return ("place", _norm_self(s), p["ty"])
        if not rest:
            return e
        # a component of a tuple / struct value built right here (e.g. the pair a spliced helper returns):
        # the projection selects that component
        def component(x, rest_, d=0):
            while rest_ and rest_[0]["k"] == "field" and x[0] == "agg" and x[1] in ("tuple", "adt") and not (x[1] == "adt" and len(x) > 6 and x[6]) and rest_[0].get("idx") is not None and rest_[0]["idx"] < len(x[5]):
                if x[1] == "adt" and x[3] not in (None, "") and rest_[0].get("adt") and False:
                    break
                x = x[5][rest_[0]["idx"]]
                rest_ = rest_[1:]
                while rest_ and rest_[0]["k"] == "deref" and x[0] == "ref":
                    x = x[2]
                    rest_ = rest_[1:]
            return x, rest_

        # `(phi(None | Some{v}))@Some.0`: the payload of the alternative that has that variant
        if len(rest) >= 2 and rest[0]["k"] == "downcast" and rest[1]["k"] == "field" and rest[1].get("idx") is not None:
            alts = e[2] if e[0] == "phi" else ((e,) if e[0] == "agg" else ())
            if alts and all(a[0] == "agg" and a[1] == "adt" for a in alts):
                hit = [a for a in alts if a[3] == rest[0].get("variant")]
                if len(hit) == 1 and rest[1]["idx"] < len(hit[0][5]):
                    e = hit[0][5][rest[1]["idx"]]
                    rest = rest[2:]
                    while rest and rest[0]["k"] == "deref" and e[0] == "ref":
                        e = e[2]
                        rest = rest[1:]
                    if e[0] == "place":
                        return ("place", _norm_self(e[1] + proj_str(rest)), p["ty"])
                    if not rest:
                        return e
        if rest and rest[0]["k"] == "field":
            if e[0] == "agg" and e[1] in ("tuple", "adt"):
                e, rest = component(e, rest)
            elif e[0] == "phi" and all(a[0] == "agg" and a[1] == "tuple" for a in e[2]):
                parts = [component(a, list(rest)) for a in e[2]]
                if len({len(r_) for _x, r_ in parts}) == 1:
                    rest = parts[0][1]
                    e = ("phi", e[1], tuple(x for x, _r in parts))
            if e[0] == "place":
                return ("place", _norm_self(e[1] + proj_str(rest)), p["ty"])
            if not rest:
                return e
        ps = proj_str(rest)
        # `?` on the result of a spliced helper: Try::branch(phi(Ok{v} | from_residual(..) ..))@Continue.0
        # is v (the Continue payload exists only on the Ok alternative)
        if ps.startswith("@Continue.0") and e[0] == "call" and (e[2] or e[1] or "").endswith("::branch") and e[3]:
            x = e[3][0]
            while x[0] == "ref":
                x = x[2]
            if x[0] == "phi":
                oks = [a for a in x[2] if a[0] == "agg" and a[1] == "adt" and a[3] in ("Ok", "Some") and len(a[5]) == 1]
                others = [a for a in x[2] if a not in oks]
                if oks and all(a[0] == "call" and (a[2] or a[1] or "").endswith("from_residual") or (a[0] == "agg" and a[1] == "adt" and a[3] in ("Err", "None")) for a in others):
                    v = oks[0][5][0] if len(oks) == 1 else ("phi", x[1], tuple(a[5][0] for a in oks))
                    rest_ps = ps[len("@Continue.0"):]
                    if not rest_ps:
                        return v
                    if v[0] == "place":
                        return ("place", _norm_self(v[1] + rest_ps), p["ty"])
                    return ("proj", v, rest_ps, p["ty"])
        return ("proj", e, ps, p["ty"])

    def local(self, local, depth=0, stack=()):
        fn = self.fn
        key = local
        if key in self.memo:
            return self.memo[key]
        if local in stack or depth > MAX_DEPTH:
            return ("cycle", local)
        if self.user_stop and fn.locals[local]["user"] and local != 0 and not fn.is_desugar_binding(local) and not (self.look_through and fn.is_new_let(local)):
            r = ("place", place_to_str(fn, local, []), fn.locals[local]["ty"])
            self.memo[key] = r
            return r
        ds = fn.defs(local)
        full = [d for d in ds if d[0] in ("assign", "call", "yield", "arg")]
        partial = [d for d in ds if d[0] == "partial"]
        user = fn.locals[local]["user"] and not (self.look_through and fn.is_new_let(local))
        if local == 0 or partial or len(full) != 1:
            # multiply-defined or partially written: keep as a place, named if possible
            r = ("place", place_to_str(fn, local, []), fn.locals[local]["ty"])
            if not partial and len(full) > 1 and not user:
                if fn.locals[local]["ty"] == "bool" and FLAG_TEMPS_AS_PLACES:
                    # a flag temporary (`matches!(..)`, `a && b`): stays a place so that the dataflow can
                    # correlate it with the arm that set it
                    self.memo[key] = r
                    return r
                # temporaries assigned on several paths (e.g. `if` results)
                stack2 = stack + (local,)
                r = ("phi", local, tuple(self._def_expr(d, depth + 1, stack2) for d in full))
            self.memo[key] = r
            return r
        d = full[0]
        if d[0] == "arg":
            nm = place_to_str(fn, local, [])
            r = ("place", nm, fn.locals[local]["ty"])
            self.memo[key] = r
            return r
        if user and fn.locals[local]["mut"]:
            # mutable user variable with one whole definition may still be mutated
            # through &mut borrows: keep it a place
            r = ("place", place_to_str(fn, local, []), fn.locals[local]["ty"])
            self.memo[key] = r
            return r
        r = self._def_expr(d, depth + 1, stack + (local,))
        self.memo[key] = r
        return r

    def var_defs(self, name):
        """Definition expressions of the user variable `name` (whole assignments)."""
        out = []
        for vn, l, proj in self.fn.var_places:
            if vn == name and not proj:
                for d in self.fn.defs(l):
                    if d[0] in ("assign", "call", "yield", "arg"):
                        out.append(self._def_expr(d, 0, (l,)))
        return out

    def _def_expr(self, d, depth, stack):
        if d[0] == "assign":
            return self.rvalue(d[3], depth, stack)
        if d[0] == "call":
            return self.call(d[1], d[2], depth, stack)
        if d[0] == "yield":
            return ("yield",)
        if d[0] == "arg":
            return ("place", place_to_str(self.fn, d[1], []), self.fn.locals[d[1]]["ty"])
        return ("other", d[0])

    def call(self, b, t, depth=0, stack=()):
        f = t["func"]
        args = tuple(self.operand(a, depth + 1, stack) for a in t["args"])
        if "fn" in f:
            decl = strip_generics(f["fn"])
            res = strip_generics(f["resolved"]) if "resolved" in f else None
        else:
            decl = None
            res = None
        if decl in CMP_ALIASES and len(args) == 2:
            # cmp::min(a, b) is a.min(b); operand order as the pinned tree wrote it
            decl = CMP_ALIASES[decl]
            res = None if res is None or res in CMP_ALIASES else res
            _op, a_, b_ = _canon_binop(self.fn, "call:" + decl.split("::")[-1], args[0], args[1])
            args = (a_, b_)
        if decl in ("core::convert::From::from", "std::convert::From::from", "core::convert::Into::into", "std::convert::Into::into") and len(args) == 1:
            # a lossless integer conversion spelled `T::from(x)` / `x.into()` is the cast `x as T`
            to = t["dest"]["ty"]
            a0 = t["args"][0]
            frm = a0.get("place", {}).get("ty") if a0.get("k") in ("copy", "move") else a0.get("ty")
            if to in INT_TYPES and frm in INT_TYPES:
                return ("cast", "IntToInt", args[0], to)
        if decl and decl.split("::")[-1] in ("lt", "le", "gt", "ge", "eq", "ne") and ("PartialOrd" in decl or "PartialEq" in decl) and len(args) == 2:
            # a.le(b) is b.ge(a): written as at the pin
            last = decl.split("::")[-1]
            op2, a_, b_ = _canon_binop(self.fn, "call:" + last, args[0], args[1])
            if (a_, b_) != (args[0], args[1]):
                args = (a_, b_)
                new_last = op2.split(":")[1]
                decl = decl[: -len(last)] + new_last
                res = (res[: -len(last)] + new_last) if res and res.endswith("::" + last) else res
        e = ("call", decl, res, args, (b, t["span"]["line"], t["dest"]["ty"]), f)
        if self.inline:
            e2 = self.prog.inline_getter(e)
            if e2 is not None:
                return e2
        return e

    def rvalue(self, r, depth=0, stack=()):
        k = r["k"]
        if k == "use":
            return self.operand(r["op"], depth, stack)
        if k == "ref":
            return ("ref", r["mutbl"], self.place(r["place"], depth, stack))
        if k == "rawptr":
            return ("ref", r["mutbl"], self.place(r["place"], depth, stack))
        if k == "binop":
            op, a, b = _canon_binop(self.fn, r["op"], self.operand(r["a"], depth, stack), self.operand(r["b"], depth, stack))
            return ("binop", op, a, b)
        if k == "unop":
            return ("unop", r["op"], self.operand(r["a"], depth, stack))
        if k == "cast":
            return ("cast", r["cast"], self.operand(r["op"], depth, stack), r["ty"])
        if k == "discr":
            return ("discr", self.place(r["place"], depth, stack))
        if k == "agg":
            ops = tuple(self.operand(o, depth, stack) for o in r["ops"])
            return (
                "agg",
                r["agg"],
                strip_generics(r.get("adt", r.get("def", ""))),
                r.get("variant"),
                tuple(r.get("fields", ())),
                ops,
            )
        if k == "repeat":
            return ("repeat", self.operand(r["op"], depth, stack), r["n"])
        return ("other", r.get("dbg", k))


def _subst_self(e, recv):
    """Substitute the place `self` in expression e by the receiver expression."""
    if not isinstance(e, tuple):
        return e
    if e[0] == "place":
        s = e[1]
        if s == "self" or s.startswith("self.") or s.startswith("self@") or s.startswith("self["):
            if recv[0] == "place":
                return ("place", recv[1] + s[4:], e[2])
            return ("proj", recv, s[4:], e[2])
        return e
    if e[0] == "call":
        return ("call", e[1], e[2], tuple(_subst_self(a, recv) for a in e[3]), e[4], e[5])
    if e[0] in ("fn", "const", "uneval", "cycle", "yield", "other"):
        return e
    if e[0] == "agg":
        return e[:5] + (tuple(_subst_self(a, recv) for a in e[5]),)
    if e[0] == "phi":
        return ("phi", e[1], tuple(_subst_self(a, recv) for a in e[2]))
    return tuple(_subst_self(x, recv) if isinstance(x, tuple) and x else x for x in e)


def _inline_getter(prog, e, mode="place"):
    """If e is a call of a local, straight-line `&self` function, return its return
    expression with `self` replaced by the receiver; else None."""
    _, decl, res, args, site, info = e
    tgt = res or decl
    fn = prog.by_norm.get(tgt) if tgt else None
    if fn is None or fn.arg_count != 1 or len(args) != 1:
        return None
    if tgt in prog._inline_cache:
        body = prog._inline_cache[tgt]
    else:
        body = None
        prog._inline_cache[tgt] = None  # recursion guard
        live = fn.live_blocks()
        straight = all(len(fn.succs(b)) <= 1 for b in live)
        self_ty = fn.locals[1]["ty"]
        if straight and self_ty.startswith("&") and not self_ty.startswith("&mut") and "&'" not in self_ty[:0]:
            eb = ExprBuilder(prog, fn, inline=True)
            ds = [d for d in fn.defs(0) if d[0] in ("assign", "call")]
            if len(ds) == 1 and not any(d[0] == "partial" for d in fn.defs(0)):
                body = eb._def_expr(ds[0], 0, (0,))
                if _has_kind(body, ("cycle", "phi", "yield", "other")):
                    body = None
        prog._inline_cache[tgt] = body
    if body is None:
        return None
    if mode == "place" and body[0] not in ("place", "const"):
        # allow `*self.f` copies only; anything else stays an opaque call
        return None
    recv = args[0]
    if recv[0] == "ref":
        recv = recv[2]
    if recv[0] not in ("place",):
        return None
    return _subst_self(body, recv)


def _has_kind(e, kinds):
    if not isinstance(e, tuple):
        return False
    if e and e[0] in kinds:
        return True
    if e and e[0] == "call":
        return any(_has_kind(a, kinds) for a in e[3])
    if e and e[0] in ("fn", "const", "uneval", "place"):
        return False
    if e and e[0] == "agg":
        return any(_has_kind(a, kinds) for a in e[5])
    if e and e[0] == "phi":
        return any(_has_kind(a, kinds) for a in e[2])
    return any(_has_kind(x, kinds) for x in e if isinstance(x, tuple) and x)


Program.inline_getter = lambda self, e, mode="place": _inline_getter(self, e, mode)


def expr_str(e, depth=0):
    if not isinstance(e, tuple):
        return str(e)
    if depth > 12:
        return "…"
    k = e[0]
    if k == "const":
        return "const(%s)" % (e[1],)
    if k == "fn":
        return "fn(%s)" % short(e[1])
    if k == "place":
        return e[1]
    if k == "proj":
        return "(%s)%s" % (expr_str(e[1], depth + 1), e[2])
    if k == "ref":
        return "&%s%s" % ("mut " if e[1] else "", expr_str(e[2], depth + 1))
    if k == "binop":
        return "%s(%s, %s)" % (e[1], expr_str(e[2], depth + 1), expr_str(e[3], depth + 1))
    if k == "unop":
        return "%s(%s)" % (e[1], expr_str(e[2], depth + 1))
    if k == "cast":
        return "(%s as %s)" % (expr_str(e[2], depth + 1), e[3])
    if k == "discr":
        return "discr(%s)" % expr_str(e[1], depth + 1)
    if k == "agg":
        nm = e[1]
        if e[1] == "adt":
            nm = short(e[2]) + ("::" + e[3] if e[3] else "")
        elif e[1] in ("closure", "coroutine", "coroutine_closure"):
            nm = e[1] + " " + short(e[2])
        return "%s{%s}" % (nm, ", ".join(expr_str(x, depth + 1) for x in e[5]))
    if k == "call":
        return "%s(%s)" % (short(e[2] or e[1] or "?"), ", ".join(expr_str(a, depth + 1) for a in e[3]))
    if k == "phi":
        return "phi(%s)" % " | ".join(expr_str(x, depth + 1) for x in e[2])
    if k == "cycle":
        return "loop(_%d)" % e[1]
    if k == "uneval":
        return "uneval(%s)" % "::".join(str(e[1]).split("::")[-3:])
    return "%s" % (k,)


def short(p):
    if p is None:
        return "?"
    parts = p.split("::")
    return "::".join(parts[-2:]) if len(parts) > 2 else p


def walk(e):
    """Pre-order walk over sub-expressions."""
    if not isinstance(e, tuple):
        return
    yield e
    k = e[0]
    if k == "call":
        for a in e[3]:
            yield from walk(a)
    elif k in ("fn", "const", "uneval", "place", "cycle", "yield", "other"):
        return
    elif k == "phi":
        for a in e[2]:
            yield from walk(a)
    elif k == "agg":
        for a in e[5]:
            yield from walk(a)
    else:
        for x in e[1:]:
            if isinstance(x, tuple):
                yield from walk(x)


def places_in(e):
    return [x[1] for x in walk(e) if x[0] == "place"]


def calls_in(e):
    return [x for x in walk(e) if x[0] == "call"]


def callee_name(c):
    if not isinstance(c, tuple) or not c or c[0] != "call":
        return None  # e.g. a lossless From/Into conversion rendered as a cast, an inlined getter
    return c[2] or c[1]


TRANSPARENT = (
    "std::clone::Clone::clone",
    "std::convert::From::from",
    "std::convert::Into::into",
    "std::ops::Deref::deref",
    "std::ops::DerefMut::deref_mut",
    "std::convert::AsRef::as_ref",
    "std::convert::AsMut::as_mut",
    "std::borrow::ToOwned::to_owned",
    "std::ops::Try::branch",
    "std::future::IntoFuture::into_future",
    "std::pin::Pin::new_unchecked",
    "std::pin::Pin::new",
    "std::future::Future::poll",
    "std::option::Option::as_ref",
    "std::option::Option::as_mut",
    "std::option::Option::cloned",
    "std::option::Option::copied",
    "std::vec::Vec::as_slice",
    "std::vec::Vec::as_mut_slice",
)


def is_transparent(c):
    d = c[1] or ""
    r = c[2] or ""
    for t in TRANSPARENT:
        if d == t or r == t or d.endswith(t.split("::", 1)[1]) and d.startswith(("std::", "core::", "alloc::")):
            return True
    nm = (r or d)
    if nm.endswith("::clone") or nm.endswith("::to_owned") or nm.endswith(">::from") or nm.endswith(">::into") or nm.endswith(">::branch") or nm.endswith("::into_future") or nm.endswith(">::poll") or nm.endswith(">::deref") or nm.endswith(">::deref_mut") or nm.endswith("::as_ref") or nm.endswith("::as_slice") or nm.endswith("::as_mut_slice") or nm.endswith("::to_vec") or nm.endswith("::to_path_buf"):
        return True
    return False


def strip_transparent(e):
    """Peel transparent wrappers (clone, ?, refs, casts that keep the value, .await
    plumbing, projections of Try/Poll results) to reach the value's origin."""
    while True:
        k = e[0]
        if k == "ref":
            e = e[2]
        elif k == "call" and is_transparent(e) and e[3]:
            e = e[3][0]
        elif k == "proj" and re.match(r"^(@(Continue|Ready|Some|Ok)\.0|\.\*|\.0$|\.pointer)+", e[2] or "") and e[1][0] in ("call", "proj", "ref"):
            # peel only the plumbing variants
            m = re.match(r"^((@(Continue|Ready)\.0)|\.\*)+", e[2])
            if m and m.end() == len(e[2]):
                e = e[1]
            else:
                return e
        else:
            return e


# ------------------------------------------------------------------ CFG utilities


def dominators(fn):
    """{block: set of dominators} over live blocks (iterative)."""
    if getattr(fn, "_dom", None) is not None:
        return fn._dom
    live = fn.live_blocks()
    allb = set(live)
    dom = {b: set(allb) for b in live}
    dom[0] = {0}
    changed = True
    while changed:
        changed = False
        for b in live:
            if b == 0:
                continue
            ps = [p for p, _ in fn.preds(b) if p in allb]
            new = set(allb)
            for p in ps:
                new &= dom[p]
            new = new | {b}
            if new != dom[b]:
                dom[b] = new
                changed = True
    fn._dom = dom
    return dom


def natural_loops(fn):
    """List of (header, body-block-set, [back-edge sources])."""
    dom = dominators(fn)
    by_head = {}
    for b in fn.live_blocks():
        for s, _ in fn.succs(b):
            if s in dom.get(b, ()):  # back edge b -> s
                body = {s, b}
                st = [b]
                while st:
                    x = st.pop()
                    if x == s:
                        continue
                    for p, _ in fn.preds(x):
                        if p not in body and p in dom:
                            body.add(p)
                            st.append(p)
                h = by_head.setdefault(s, [set(), []])
                h[0] |= body
                h[1].append(b)
    return [(h, v[0], v[1]) for h, v in sorted(by_head.items())]


# ------------------------------------------------------------------ helper inlining


def _subst_params(e, mapping):
    """Substitute parameter places of a callee body by the caller's argument expressions."""
    if not isinstance(e, tuple):
        return e
    k = e[0]
    if k == "place":
        s = e[1]
        root = s
        for ch in ".@[":
            root = root.split(ch)[0]
        if root in mapping:
            a = mapping[root]
            rest = s[len(root):]
            while a[0] == "ref" and rest.startswith(".*"):
                a = a[2]
                rest = rest[2:]
            if a[0] == "ref" and not rest:
                return a
            if a[0] == "ref":
                a = a[2]
            if not rest:
                return a
            if a[0] == "place":
                return ("place", _norm_self(a[1] + rest), e[2])
            return ("proj", a, rest, e[2])
        return e
    if k == "call":
        return ("call", e[1], e[2], tuple(_subst_params(a, mapping) for a in e[3]), e[4], e[5])
    if k in ("fn", "const", "uneval", "cycle", "yield", "other"):
        return e
    if k == "agg":
        return e[:5] + (tuple(_subst_params(a, mapping) for a in e[5]),)
    if k == "phi":
        return ("phi", e[1], tuple(_subst_params(a, mapping) for a in e[2]))
    return tuple(_subst_params(x, mapping) if isinstance(x, tuple) and x else x for x in e)


_HELPER_BODY = {}


def inline_helpers(prog, e, depth=0, skip=("encode", "decode", "encoded_len")):
    """Replace calls of local straight-line helper functions (any number of arguments) by
    their return expression over the caller's arguments."""
    if not isinstance(e, tuple) or depth > 4:
        return e
    k = e[0]
    if k == "call":
        args = tuple(inline_helpers(prog, a, depth, skip) for a in e[3])
        e = ("call", e[1], e[2], args, e[4], e[5])
        tgt = e[2] or e[1]
        fn = prog.by_norm.get(tgt) if tgt else None
        if fn is not None and fn.name not in skip and fn.arg_count == len(args):
            key = (id(prog), tgt)
            if key not in _HELPER_BODY:
                _HELPER_BODY[key] = None
                live = fn.live_blocks()
                if all(len(fn.succs(b)) <= 1 for b in live):
                    eb = ExprBuilder(prog, fn)
                    ds = [d for d in fn.defs(0) if d[0] in ("assign", "call")]
                    if len(ds) == 1 and not any(d[0] == "partial" for d in fn.defs(0)):
                        body = eb._def_expr(ds[0], 0, (0,))
                        if not _has_kind(body, ("cycle", "phi", "yield", "other")):
                            _HELPER_BODY[key] = body
            body = _HELPER_BODY[key]
            if body is not None:
                names = {}
                for vn, l, proj in fn.var_places:
                    if not proj and 1 <= l <= fn.arg_count:
                        names[vn] = args[l - 1]
                return inline_helpers(prog, _subst_params(body, names), depth + 1, skip)
        return e
    if k in ("fn", "const", "uneval", "place", "cycle", "yield", "other"):
        return e
    if k == "agg":
        return e[:5] + (tuple(inline_helpers(prog, a, depth, skip) for a in e[5]),)
    if k == "phi":
        return ("phi", e[1], tuple(inline_helpers(prog, a, depth, skip) for a in e[2]))
    return tuple(inline_helpers(prog, x, depth, skip) if isinstance(x, tuple) and x else x for x in e)
