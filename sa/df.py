"""Predicate-state ("worlds") dataflow, mod summaries, guarded reachability.

A *world* is a partial map key -> value-set constraint.  Keys:
   ('val', place_str)                     enum variant names / ints / bools of a place
   ('call', callee_norm, arg_strs)        bool result of an opaque predicate call
   ('expr', expr_str)                     bool result of any other boolean expression
A value-set is (positive, frozenset): positive=True means value in set, False means
value not in set.  The abstract state at a program point is a *set* of worlds
(disjunction); join is set union (bounded), so correlations between different
tests survive merges.
"""
import re
from collections import defaultdict

from core import (
    ExprBuilder,
    calls_in,
    callee_name,
    expr_str,
    places_in,
    place_to_str,
    strip_generics,
    walk,
)

MAX_WORLDS = 96

# ------------------------------------------------------------------ value sets


def vs_meet(a, b):
    if a is None:
        return b
    if b is None:
        return a
    (pa, sa), (pb, sb) = a, b
    if pa and pb:
        return (True, sa & sb)
    if pa and not pb:
        return (True, sa - sb)
    if pb and not pa:
        return (True, sb - sa)
    return (False, sa | sb)


def vs_empty(a):
    return a is not None and a[0] and not a[1]


def vs_subset(a, b):
    """a ⊆ b (None = top)."""
    if b is None:
        return True
    if a is None:
        return False
    (pa, sa), (pb, sb) = a, b
    if pa and pb:
        return sa <= sb
    if pa and not pb:
        return not (sa & sb)
    if not pa and not pb:
        return sb <= sa
    return False  # co-finite inside finite: unknown universe


def world_get(w, key):
    return dict(w).get(key)


def world_set(w, key, vs):
    d = dict(w)
    if vs is None:
        d.pop(key, None)
    else:
        d[key] = vs
    return frozenset(d.items())


def world_refine(w, key, vs):
    cur = dict(w).get(key)
    new = vs_meet(cur, vs)
    if vs_empty(new):
        return None
    return world_set(w, key, new)


TOP = frozenset()


def trim(worlds):
    """Drop worlds subsumed by a more general world; cap the number of worlds by
    merging into TOP-ish (sound: forgetting facts)."""
    ws = list(worlds)
    if len(ws) > 1:
        keep = []
        for i, w in enumerate(ws):
            dw = dict(w)
            sub = False
            for j, v in enumerate(ws):
                if i == j:
                    continue
                dv = dict(v)
                # v more general than w: every key of v present in w with subset
                if len(dv) <= len(dw) and all(k in dw and vs_subset(dw[k], dv[k]) for k in dv):
                    if dv != dw or j < i:
                        sub = True
                        break
            if not sub:
                keep.append(w)
        ws = keep
    if len(ws) > MAX_WORLDS:
        # forget the least common keys until small enough
        cnt = defaultdict(int)
        for w in ws:
            for k, _ in w:
                cnt[k] += 1
        order = sorted(cnt, key=lambda k: cnt[k])
        for k in order:
            ws = list({frozenset((kk, v) for kk, v in w if kk != k) for w in ws})
            ws = list(trim(ws)) if len(ws) <= MAX_WORLDS * 4 else ws
            if len(ws) <= MAX_WORLDS:
                break
    return frozenset(ws)


# ------------------------------------------------------------------ conditions

BOOL_TRUE = (True, frozenset([1]))
BOOL_FALSE = (True, frozenset([0]))


def _unref(e):
    while e[0] == "ref":
        e = e[2]
    return e


def _const_variant(e):
    """Variant name if e is a field-less enum constructor aggregate."""
    e = _unref(e)
    if e[0] == "agg" and e[1] == "adt" and e[3] and not e[5]:
        return e[3]
    return None


class Cond:
    """Interpretation of a boolean (or discriminant) expression as constraints."""

    def __init__(self, prog, track):
        self.prog = prog
        self.track = track  # key -> bool

    def key_reads(self, key):
        """Places a key depends on (strings); '*' = unknown."""
        if key[0] == "val":
            return (key[1],)
        return key[-1]

    def edges(self, fn, eb, term, eb_v=None):
        """For a switch terminator: list over successors of list of (key, valueset).
        eb_v: a builder that does not look through new lets. The key *text* comes from the looked-through
        expression (what the rules match on); what a predicate key *depends on* comes from the variables
        it was computed from (`let n = f(self.q); self.q.clear(); if n > 0 {..}` - the test is about the
        value captured in n, a later write to self.q does not invalidate it)."""
        e = eb.operand(term["discr"])
        ev = eb_v.operand(term["discr"]) if eb_v is not None else None
        out = []
        labs = [("v", v) for v, tb in term["targets"]] + [("else", tuple(v for v, _ in term["targets"]))]
        for lab in labs:
            cs = self.constraint(fn, e, lab)
            if ev is not None and ev != e:
                csv = self.constraint_untracked(fn, ev, lab)
                if len(csv) == len(cs):
                    merged = []
                    for (k, vs), (kv, _vsv) in zip(cs, csv):
                        if k[0] == kv[0] and k[0] in ("expr", "call", "dexpr"):
                            k = k[:-1] + (kv[-1],)
                        merged.append((k, vs))
                    cs = merged
            out.append(cs)
        return out

    def constraint_untracked(self, fn, e, lab):
        """constraint() without the track filter (used only to read off what the keys depend on)."""
        saved = self.track
        self.track = lambda key: True
        try:
            return self.constraint(fn, e, lab)
        finally:
            self.track = saved

    def constraint(self, fn, e, lab):
        """Constraints [(key, vs)] that hold when expression e takes the edge lab."""
        if lab[0] == "v":
            vs = (True, frozenset([lab[1]]))
        else:
            vs = (False, frozenset(lab[1]))
        return self._cons(fn, e, vs, 0)

    def _cons(self, fn, e, vs, depth):
        """e's integer value ∈ vs."""
        prog = self.prog
        if depth > 8:
            return []
        k = e[0]
        if k == "unop" and e[1] == "Not":
            return self._cons(fn, e[2], _flip_bool(vs), depth + 1)
        if k == "discr":
            p = _unref(e[1])
            if p[0] == "place":
                names = prog.variant_names(p[2])
                if names:
                    nvs = _map_names(vs, names)
                    return self._mk(("val", p[1]), nvs)
                return self._mk(("val", p[1]), vs)
            if p[0] == "phi" and p[2] and all(a[0] == "agg" and a[1] == "adt" and a[3] for a in p[2]):
                # a value built as one constant variant per path (`None` / `Some(x)` out of a helper):
                # the dataflow records which one at each construction
                names = prog.variant_names(fn.locals[p[1]]["ty"])
                if names:
                    return self._mk(("val", place_to_str(fn, p[1], [])), _map_names(vs, names))
                return []
            if p[0] == "call" and (callee_name(p) or "").endswith("::branch") and p[3]:
                # `?` applied to a value built as one constant variant per path (the Ok / Err a spliced helper
                # returns): Continue <-> Ok / Some, Break <-> Err / None
                q = _unref(p[3][0])
                if q[0] == "phi" and q[2] and all(a[0] == "agg" and a[1] == "adt" and a[3] for a in q[2]):
                    vars_ = {a[3] for a in q[2]}
                    if vars_ <= {"Ok", "Err"}:
                        names = {0: "Ok", 1: "Err"}
                    elif vars_ <= {"Some", "None"}:
                        names = {0: "Some", 1: "None"}
                    else:
                        names = None
                    if names:
                        return self._mk(("val", place_to_str(fn, q[1], [])), _map_names(vs, names))
            if p[0] == "call":
                # discriminant of a call result (`if let Some(x) = self.f.take()`)
                ret_ty = p[4][2] if len(p[4]) > 2 else None
                names = prog.variant_names(ret_ty) if ret_ty else None
                nvs = _map_names(vs, names) if names else vs
                key = ("dexpr", expr_str(p), tuple(sorted(set(places_in(p)))))
                return self._mk(key, nvs)
            return []
        if k == "place":
            ty = e[2]
            if ty == "bool":
                bb = _as_bool(vs)
                if bb is not None:
                    vs = BOOL_TRUE if bb else BOOL_FALSE
                return self._mk(("val", e[1]), vs)
            names = prog.variant_names(ty)
            if names:
                return self._mk(("val", e[1]), _map_names(vs, names))
            return self._mk(("val", e[1]), vs)
        if k == "cast":
            return self._cons(fn, e[2], vs, depth + 1)
        if k == "call":
            nm = callee_name(e) or ""
            args = e[3]
            b = _as_bool(vs)
            if b is None:
                return []
            short = nm.split("::")[-1]
            # Option / Result tests
            if nm in ("std::option::Option::is_some", "std::option::Option::is_none", "std::result::Result::is_ok", "std::result::Result::is_err") and args:
                p = _unref(args[0])
                if p[0] == "place":
                    pos = {"is_some": "Some", "is_none": "None", "is_ok": "Ok", "is_err": "Err"}[short]
                    neg = {"Some": "None", "None": "Some", "Ok": "Err", "Err": "Ok"}[pos]
                    return self._mk(("val", p[1]), (True, frozenset([pos if b else neg])))
            # PartialEq on enums against a constant variant
            if short in ("eq", "ne") and len(args) == 2 and ("PartialEq" in nm or "cmp::" in nm):
                a0, a1 = _unref(args[0]), _unref(args[1])
                want_eq = b if short == "eq" else (not b)
                for x, y in ((a0, a1), (a1, a0)):
                    v = _const_variant(y)
                    if v is not None and x[0] == "place":
                        return self._mk(("val", x[1]), (want_eq, frozenset([v])))
                    if y[0] == "const" and x[0] == "place" and isinstance(y[1], int):
                        return self._mk(("val", x[1]), (want_eq, frozenset([y[1]])))
            # `opt.map_or(false, |x| p(x))` / `opt.is_some_and(|x| p(x))` holds  =>  opt is Some and p(payload) holds
            if short in ("map_or", "is_some_and") and b and ((short == "map_or" and len(args) == 3 and args[1][0] == "const" and args[1][1] in (0, False)) or (short == "is_some_and" and len(args) == 2)):
                clo = _unref(args[-1])
                optp = _unref(args[0])
                while optp[0] == "call" and (callee_name(optp) or "").split("::")[-1] in ("as_ref", "as_mut", "as_deref") and optp[3]:
                    optp = _unref(optp[3][0])
                cl = prog.by_norm.get(clo[2]) if clo[0] == "agg" and clo[1] == "closure" else None
                if cl is not None and optp[0] == "place":
                    ebc = ExprBuilder(prog, cl)
                    rets = [ebc._def_expr(d_, 0, (0,)) for d_ in cl.defs(0) if d_[0] in ("assign", "call")]
                    params = [vn for vn, l_, pj in cl.var_places if not pj and 2 <= l_ <= cl.arg_count]
                    if len(rets) == 1 and rets[0][0] == "place" and len(params) == 1 and re.match(r"^%s(\.\*)*(\.\w+)+$" % re.escape(params[0]), rets[0][1]):
                        # `|m| m.flag`: the flag of the payload
                        fld = rets[0][1][len(params[0]):].replace(".*", "")
                        out_ = self._mk(("val", optp[1]), (True, frozenset(["Some"]))) + self._mk(("val", "%s@Some.0%s" % (optp[1], fld)), BOOL_TRUE)
                        if out_:
                            return out_
                    if len(rets) == 1 and rets[0][0] == "call" and len(params) == 1:
                        body = rets[0]
                        sub = "%s@Some.0" % optp[1]
                        nm2 = callee_name(body) or ""
                        # captured places are spelled `self__field` inside the closure: put the captured expression back
                        caps = {}
                        for vn, l_, pj in cl.var_places:
                            if l_ == 1 and pj:
                                fi = [p_.get("idx") for p_ in pj if p_.get("k") == "field"]
                                if fi and fi[0] is not None and fi[0] < len(clo[5]):
                                    caps[vn] = expr_str(_unref(clo[5][fi[0]]))

                        def back(txt):
                            txt = re.sub(r"(?<![\w.])%s(?![\w])" % re.escape(params[0]), sub, txt)
                            for vn, ce_ in caps.items():
                                txt = re.sub(r"(?<![\w.])%s(?![\w])" % re.escape(vn), ce_, txt)
                            return txt

                        args2 = tuple(back(expr_str(a_)) for a_ in body[3])
                        reads = set(self._call_reads(nm2, body[3])) | {optp[1]}
                        reads = tuple(sorted({back(r_) for r_ in reads if r_ != params[0]}))
                        out_ = self._mk(("val", optp[1]), (True, frozenset(["Some"]))) + self._mk(("call", nm2, args2, reads), BOOL_TRUE)
                        if out_:
                            return out_
            # local straight-line predicate (e.g. `eof_received`): use its body when
            # the body is itself understood as a constraint on places
            inl = prog.inline_getter(e, "full")
            if inl is not None and inl[0] == "call":
                inm = callee_name(inl) or ""
                if inm.split("::")[-1] in ("is_some", "is_none", "is_ok", "is_err", "eq", "ne"):
                    got = self._cons(fn, inl, vs, depth + 1)
                    if got and all(k[0] == "val" for k, _ in got):
                        return got
            # opaque predicate calls: keyed by callee and argument expressions; the
            # key depends on the places mentioned by the arguments and, for a local
            # callee with a `self` receiver, on the fields the callee reads
            key = ("call", nm, tuple(expr_str(a) for a in args), self._call_reads(nm, args))
            return self._mk(key, BOOL_TRUE if b else BOOL_FALSE)
        if k == "binop" and e[1] in ("Eq", "Ne"):
            b = _as_bool(vs)
            if b is not None:
                want_eq = b if e[1] == "Eq" else (not b)
                for x, y in ((e[2], e[3]), (e[3], e[2])):
                    if y[0] == "const" and isinstance(y[1], int):
                        if x[0] == "place":
                            return self._mk(("val", x[1]), (want_eq, frozenset([y[1]])))
                        if x[0] == "discr":
                            return self._cons(fn, x, (want_eq, frozenset([y[1]])), depth + 1)
        if k in ("binop", "unop", "proj"):
            b = _as_bool(vs)
            if b is None:
                return []
            key = ("expr", expr_str(e), tuple(sorted(set(places_in(e)))))
            return self._mk(key, BOOL_TRUE if b else BOOL_FALSE)
        return []

    def _call_reads(self, nm, args):
        reads = set()
        for i, a in enumerate(args):
            ps = places_in(a)
            if i == 0 and nm in self.prog.by_norm and len(ps) == 1:
                fields = refs_of(self.prog, nm)
                if fields is not None and "*" not in fields:
                    for f in fields:
                        reads.add(ps[0] + "." + f)
                    continue
            reads.update(ps)
        return tuple(sorted(reads))

    def _mk(self, key, vs):
        if self.track(key):
            return [(key, vs)]
        return []


def _flip_bool(vs):
    pos, s = vs
    if pos:
        return (True, frozenset(1 - x for x in s if x in (0, 1)))
    return (False, frozenset(1 - x for x in s if x in (0, 1)))


def _as_bool(vs):
    pos, s = vs
    if pos and s == frozenset([1]):
        return True
    if pos and s == frozenset([0]):
        return False
    if not pos and s == frozenset([0]):
        return True
    if not pos and s == frozenset([1]):
        return False
    return None


def _map_names(vs, names):
    pos, s = vs
    return (pos, frozenset(names.get(x, x) for x in s))


# ------------------------------------------------------------------ mod summaries


def first_field(place_str, root="self"):
    """`self.timer.nak` -> 'timer' ; 'self' -> '*' ; other roots -> None"""
    if place_str == root:
        return "*"
    for sep in (".", "@", "["):
        pass
    if place_str.startswith(root + "."):
        rest = place_str[len(root) + 1 :]
        out = ""
        for ch in rest:
            if ch in ".@[":
                break
            out += ch
        return out
    if place_str.startswith(root + "@") or place_str.startswith(root + "["):
        return "*"
    return None


_REFS = {}


def refs_of(prog, norm, _stack=()):
    """First-level fields of `self` (arg 1) read by a local function, transitively
    through calls that pass `self` on; None if unknown, '*' if the whole object."""
    key = (id(prog), norm)
    if key in _REFS:
        return _REFS[key]
    fn = prog.by_norm.get(norm)
    if fn is None or fn.arg_count < 1 or norm in _stack:
        return None if fn is None or fn.arg_count < 1 else set()
    root = None
    for name, l, proj in fn.var_places:
        if l == 1 and not proj:
            root = name
    if root is None:
        return None
    eb = ExprBuilder(prog, fn, inline=False)
    out = set()

    def note(e):
        for p in places_in(e):
            f = first_field(p, root)
            if f:
                out.add(f)

    for b in fn.live_blocks():
        blk = fn.blocks[b]
        for st in blk["stmts"]:
            if st["k"] == "assign":
                note(eb.rvalue(st["rv"]))
        t = blk["term"]
        if t["k"] == "call":
            e = eb.call(b, t)
            tgts = prog.call_targets(t)
            for i, a in enumerate(e[3]):
                r = a
                while r[0] == "ref":
                    r = r[2]
                if i == 0 and r[0] == "place" and r[1] == root:
                    if not tgts:
                        out.add("*")
                    for tg in tgts:
                        sub = refs_of(prog, tg.norm, _stack + (norm,))
                        if sub is None:
                            out.add("*")
                        else:
                            out.update(sub)
                else:
                    note(a)
        elif t["k"] == "switch":
            note(eb.operand(t["discr"]))
    for c in prog.closures_of(fn):
        # closures created here read captured places under their own names; be
        # conservative only if they capture `self` itself
        pass
    _REFS[key] = out
    return out


class Mods:
    """Per-function summaries: first-level fields of `self` (argument 1) that the
    function may write, transitively."""

    def __init__(self, prog):
        self.prog = prog
        self.direct = {}
        self.calls = {}
        self.summary = {}
        for fn in prog.by_norm.values():
            self._local(fn)
        changed = True
        self.summary = {n: set(s) for n, s in self.direct.items()}
        while changed:
            changed = False
            for n, cs in self.calls.items():
                s = self.summary[n]
                for tgt, recv_field in cs:
                    add = set()
                    if tgt is None:
                        add = {recv_field} if recv_field != "*" else {"*"}
                    else:
                        sub = self.summary.get(tgt)
                        if sub is None:
                            add = {recv_field if recv_field != "*" else "*"}
                        elif recv_field == "*":
                            add = sub
                        else:
                            add = {recv_field} if sub else set()
                    if not add <= s:
                        s |= add
                        changed = True

    def _self_name(self, fn):
        if fn.arg_count >= 1:
            for name, l, proj in fn.var_places:
                if l == 1 and not proj:
                    return name
        return None

    def _local(self, fn):
        prog = self.prog
        direct = set()
        calls = []
        root = self._self_name(fn)
        self.direct[fn.norm] = direct
        self.calls[fn.norm] = calls
        if root is None:
            return
        self_ty = fn.locals[1]["ty"]
        eb = ExprBuilder(prog, fn, inline=False)
        for b in fn.live_blocks():
            blk = fn.blocks[b]
            for s in blk["stmts"]:
                if s["k"] in ("assign", "setdiscr"):
                    ps = fn.place_str(s["place"])
                    if s.get("inlined_arg") and ps == root:
                        continue  # a spliced helper's self parameter: an alias of self, not a write
                    f = first_field(ps, root)
                    if f:
                        direct.add(f)
                    if s["k"] == "assign":
                        rv = s["rv"]
                        if rv["k"] in ("ref", "rawptr") and rv["mutbl"]:
                            # a &mut borrow of a field that is not immediately passed
                            # to a call is treated as a write when it escapes into a
                            # user variable
                            pass
            t = blk["term"]
            if t["k"] == "call":
                e = eb.call(b, t)
                tgts = prog.call_targets(t)
                for i, a in enumerate(e[3]):
                    for sub in _mut_refs(a):
                        f = first_field(sub, root)
                        if not f:
                            continue
                        if tgts and i == 0:
                            for tg in tgts:
                                calls.append((tg.norm, f))
                        else:
                            calls.append((None, f))
                # closures capturing &mut self fields, created and passed here
                ps = fn.place_str(t["dest"])
                f = first_field(ps, root)
                if f:
                    direct.add(f)
            elif t["k"] == "drop":
                pass
        # &mut borrows stored in user variables (e.g. `let v = &mut self.0;`)
        for b in fn.live_blocks():
            for s in fn.blocks[b]["stmts"]:
                if s["k"] == "assign" and s["rv"]["k"] in ("ref", "rawptr") and s["rv"]["mutbl"]:
                    tgt = s["place"]
                    if not tgt["proj"] and fn.locals[tgt["local"]]["user"]:
                        f = first_field(fn.place_str(s["rv"]["place"]), root)
                        if f:
                            direct.add(f)
                if s["k"] == "assign" and s["rv"]["k"] == "agg" and s["rv"]["agg"] in ("closure", "coroutine", "coroutine_closure"):
                    e = eb.rvalue(s["rv"])
                    for a in e[5]:
                        for sub in _mut_refs(a):
                            f = first_field(sub, root)
                            if f:
                                direct.add(f)

    def of(self, norm):
        return self.summary.get(norm)


LEAF_TYPES = (
    "std::fs::File",
    "[u8]",
    "u8",
    "std::vec::Vec<u8>",
    "std::io::",
    "tokio::",
    "std::time::",
    "std::string::String",
    "str",
    "camino::",
)


def _leaf_type(ty):
    t = (ty or "").strip()
    while t.startswith("&"):
        t = t[1:].lstrip()
        if t.startswith("mut "):
            t = t[4:]
    return any(t == x or (x.endswith("::") and t.startswith(x)) for x in LEAF_TYPES)


def _walk_nocall(e):
    """Sub-expressions of e evaluated *at this point*: does not descend into nested
    calls (those were executed - and accounted for - at their own call site)."""
    if not isinstance(e, tuple) or not e:
        return
    yield e
    k = e[0]
    if k in ("call", "fn", "const", "uneval", "place", "cycle", "yield", "other"):
        return
    if k == "phi":
        for a in e[2]:
            yield from _walk_nocall(a)
    elif k == "agg":
        for a in e[5]:
            yield from _walk_nocall(a)
    else:
        for x in e[1:]:
            if isinstance(x, tuple) and x:
                yield from _walk_nocall(x)


def _mut_refs(e):
    """Place strings that are mutably borrowed by expression e itself.
    A `&mut` re-borrowed out of a call result (e.g. the `&mut File` returned by
    `get_handle(&mut self)`) aliases part of the call's `&mut` arguments; by
    type-based aliasing it can only reach places of its own pointee type, so
    leaf std types (File, byte buffers, ...) are not treated as writes to `self`."""
    out = []
    for x in _walk_nocall(e):
        if x[0] == "ref" and x[1]:
            p = x[2]
            while p[0] == "ref":
                p = p[2]
            if p[0] == "place":
                out.append(p[1])
            elif p[0] == "proj":
                if _leaf_type(p[3]):
                    continue
                q = p[1]
                while q[0] in ("ref", "proj", "call"):
                    if q[0] == "ref":
                        q = q[2]
                    elif q[0] == "proj":
                        q = q[1]
                    elif q[0] == "call" and q[3]:
                        q = q[3][0]
                    else:
                        break
                if q[0] == "place":
                    out.append(q[1])
    return out


# ------------------------------------------------------------------ dataflow


def overlaps(written, read):
    """Does a write to place `written` affect a read of place `read`?"""
    if written == read:
        return True
    for a, b in ((written, read), (read, written)):
        if b.startswith(a) and len(b) > len(a) and b[len(a)] in ".@[":
            return True
    return False


CMP_OPS = ("Eq", "Ne", "Lt", "Le", "Gt", "Ge")


def _const_flags(fn):
    """Boolean locals the dataflow follows as flags (user variables by name, temporaries as `_N`): every
    definition is a constant, a comparison, the result of a bool-returning call, a copy of another bool
    local or its negation.  `let cancelled = match state {A => false, B => true}`, `let same = a == b`,
    `matches!(x, P)`, the result temporary of `a && b`, the return value of a spliced helper."""
    out = set()
    named = {}
    for nm, l, pj in fn.var_places:
        if not pj:
            named[l] = nm

    def ok_def(d):
        if d[0] == "call":
            return True
        if d[0] != "assign":
            return False
        rv = d[3]
        if rv["k"] == "use":
            return rv["op"].get("k") == "const" or (rv["op"].get("k") in ("copy", "move") and rv["op"]["place"].get("ty") == "bool")
        if rv["k"] == "binop":
            return rv.get("op") in CMP_OPS
        if rv["k"] == "unop":
            return rv.get("op") == "Not"
        return False

    for l, loc in enumerate(fn.locals):
        if l == 0 or l <= fn.arg_count or loc["ty"] != "bool":
            continue
        ds = fn.defs(l)
        if not ds or not all(ok_def(d) for d in ds):
            continue
        if l in named:
            # a user variable: a flag when it has several definitions, or one that is a constant / comparison
            if len(ds) >= 2 or ds[0][0] == "assign" and ds[0][3]["k"] in ("binop",) or (ds[0][0] == "assign" and ds[0][3]["k"] == "use" and ds[0][3]["op"].get("k") in ("copy", "move")):
                out.add(named[l])
        elif len(ds) >= 2:
            out.add("_%d" % l)
    # enum values built as one constant variant per path
    for l, loc in enumerate(fn.locals):
        if l == 0 or l <= fn.arg_count or loc["ty"] == "bool":
            continue
        ds = fn.defs(l)
        if len(ds) >= 2 and all(d[0] == "assign" and d[3]["k"] == "agg" and d[3].get("agg") == "adt" and d[3].get("is_enum") and d[3].get("variant") for d in ds):
            out.add(named.get(l, "_%d" % l))
    # a boolean call result that is wrapped into a value (`Some(timer.limit_reached())`) and tested after unwrapping
    wrapped = set()
    for b in fn.live_blocks():
        for st in fn.blocks[b]["stmts"]:
            if st["k"] == "assign" and st["rv"]["k"] == "agg" and st["rv"].get("agg") in ("adt", "tuple"):
                for o in st["rv"]["ops"]:
                    if o.get("k") in ("move", "copy") and not o["place"]["proj"] and o["place"].get("ty") == "bool":
                        wrapped.add(o["place"]["local"])
    for l in wrapped:
        ds = fn.defs(l)
        if l > fn.arg_count and len(ds) == 1 and ds[0][0] == "call":
            out.add(named.get(l, "_%d" % l))
    return out


PAYLOAD_KEY = re.compile(r"^[\w.]+@\w+\.\d+$")


class Flow:
    """Intraprocedural world-set dataflow for one function."""

    def __init__(self, prog, mods, fn, track, entry=None, gen=True, user_stop=False):
        self.prog = prog
        self.mods = mods
        self.fn = fn
        # boolean flag variables (user locals of type bool assigned only constants) are always
        # tracked: `let cancelled = match state {A => false, B => true}; ... if cancelled {..}`
        # keeps the correlation between the arm taken and the later test
        flags = _const_flags(fn)
        if flags:
            base = track

            def track(key, _b=base, _f=flags):
                return _b(key) or (key[0] == "val" and (key[1] in _f or PAYLOAD_KEY.match(key[1]) is not None))

        self.cond = Cond(prog, track)
        self.track = track
        self.eb = ExprBuilder(prog, fn, user_stop=user_stop)
        self.eb_v = ExprBuilder(prog, fn, user_stop=user_stop, look_through=False)
        self.eb_raw = ExprBuilder(prog, fn, inline=False)
        self.entry = entry if entry is not None else frozenset([TOP])
        self.gen = gen
        self.inn = {}
        self.self_name = mods._self_name(fn)
        self._run()

    # -- effects
    def _kill_place(self, worlds, written):
        out = set()
        for w in worlds:
            d = None
            for key, vs in w:
                reads = self.cond.key_reads(key)
                if any(r == "*" or overlaps(written, r) for r in reads):
                    if d is None:
                        d = dict(w)
                    d.pop(key, None)
            out.add(frozenset(d.items()) if d is not None else w)
        return frozenset(out)

    def _kill_self_fields(self, worlds, root, fields):
        if not fields:
            return worlds
        out = set()
        for w in worlds:
            d = None
            for key, vs in w:
                reads = self.cond.key_reads(key)
                hit = False
                for r in reads:
                    if r == "*":
                        hit = True
                        break
                    ff = None
                    if r == root:
                        hit = True
                        break
                    if r.startswith(root + "."):
                        ff = r[len(root) + 1 :]
                        for ch in ".@[":
                            ff = ff.split(ch)[0]
                        if "*" in fields or ff in fields:
                            hit = True
                            break
                if hit:
                    if d is None:
                        d = dict(w)
                    d.pop(key, None)
            out.add(frozenset(d.items()) if d is not None else w)
        return frozenset(out)

    def stmt(self, worlds, s):
        if s["k"] == "assign":
            ps = self.fn.place_str(s["place"])
            if s.get("inlined_arg") and ps == "self":
                # a spliced helper's `self` parameter bound to the caller's own self: an alias, not a write
                return worlds
            worlds = self._kill_place(worlds, ps)
            rv = s["rv"]
            if self.gen and self.track(("val", ps)):
                vs = self._gen_value(rv)
                if vs is not None:
                    worlds = frozenset(world_set(w, ("val", ps), vs) for w in worlds)
                elif rv["k"] in ("use", "unop") and s["place"]["ty"] == "bool" and not s["place"]["proj"] and (rv.get("op") if rv["k"] == "use" else rv.get("a", {})).get("k") in ("copy", "move"):
                    # a copy (or negation) of another boolean: carry its value over, world by world
                    src_op = rv["op"] if rv["k"] == "use" else rv["a"]
                    src = self.fn.place_str(src_op["place"])
                    neg = rv["k"] == "unop" and rv.get("op") == "Not"
                    if rv["k"] == "use" or neg:
                        out = set()
                        for w in worlds:
                            v = dict(w).get(("val", src))
                            if v is not None and v[0] and len(v[1]) == 1 and list(v[1])[0] in (0, 1):
                                bit = list(v[1])[0]
                                out.add(world_set(w, ("val", ps), (True, frozenset([1 - bit if neg else bit]))))
                            elif v is None and self.track(("val", src)):
                                # the source is a tracked boolean place of unknown value: keep flag and source correlated
                                for bit in (0, 1):
                                    w2 = world_set(w, ("val", src), (True, frozenset([bit])))
                                    out.add(world_set(w2, ("val", ps), (True, frozenset([1 - bit if neg else bit]))))
                            else:
                                out.add(w)
                        worlds = frozenset(out)
                elif rv["k"] == "binop" and rv.get("op") in CMP_OPS and s["place"]["ty"] == "bool" and not s["place"]["proj"]:
                    # a bound comparison: keep the flag correlated with the predicate it stands for
                    ei = self.eb.rvalue(rv)
                    ct = self.cond._cons(self.fn, ei, BOOL_TRUE, 0)
                    cf = self.cond._cons(self.fn, ei, BOOL_FALSE, 0)
                    out = set()
                    for w in worlds:
                        for cs, bit in ((ct, 1), (cf, 0)):
                            cur = world_set(w, ("val", ps), (True, frozenset([bit])))
                            for key, kvs in cs:
                                cur = world_refine(cur, key, kvs)
                                if cur is None:
                                    break
                            if cur is not None:
                                out.add(cur)
                    worlds = frozenset(out)
            if self.gen and rv["k"] == "agg" and rv.get("agg") == "adt" and rv.get("variant") and not s["place"]["proj"]:
                # `X = Some(flag)`: the payload keeps the flag's value
                for i, o in enumerate(rv["ops"]):
                    if o.get("k") in ("move", "copy") and not o["place"]["proj"] and o["place"].get("ty") == "bool":
                        src = self.fn.place_str(o["place"])
                        dstk = ("val", "%s@%s.%d" % (ps, rv["variant"], i))
                        if self.track(dstk):
                            worlds = frozenset(world_set(w, dstk, dict(w)[("val", src)]) if ("val", src) in dict(w) else w for w in worlds)
            if self.gen and rv["k"] == "use" and rv["op"].get("k") in ("move", "copy") and not rv["op"]["place"]["proj"] and not s["place"]["proj"] and s["place"]["ty"] != "bool":
                # a whole value moved on (`dest = move ret`): payload facts move with it
                src = self.fn.place_str(rv["op"]["place"])
                out = set()
                for w in worlds:
                    add = [((k[0], ps + k[1][len(src):]), v) for k, v in w if k[0] == "val" and (k[1].startswith(src + "@") or k[1] == src)]
                    cur = w
                    for k2, v2 in add:
                        if self.track(k2):
                            cur = world_set(cur, k2, v2)
                    out.add(cur)
                worlds = frozenset(out)
            if rv["k"] == "agg" and rv["agg"] in ("closure", "coroutine", "coroutine_closure"):
                e = self.eb_raw.rvalue(rv)
                for a in e[5]:
                    for sub in _mut_refs(a):
                        worlds = self._kill_place(worlds, sub)
        elif s["k"] == "setdiscr":
            worlds = self._kill_place(worlds, self.fn.place_str(s["place"]))
        return worlds

    def _gen_value(self, rv):
        if rv["k"] == "agg" and rv["agg"] == "adt" and rv.get("is_enum"):
            return (True, frozenset([rv["variant"]]))
        if rv["k"] == "use" and rv["op"]["k"] == "const" and "val" in rv["op"] and rv["op"]["ty"] in ("bool",):
            return (True, frozenset([rv["op"]["val"]]))
        return None

    def call(self, worlds, b, t):
        fn = self.fn
        e = self.eb_raw.call(b, t)
        tgts = self.prog.call_targets(t)
        for i, a in enumerate(e[3]):
            for sub in _mut_refs(a):
                if i == 0 and tgts:
                    fields = set()
                    unknown = False
                    for tg in tgts:
                        m = self.mods.of(tg.norm)
                        if m is None:
                            unknown = True
                        else:
                            fields |= m
                    if unknown or "*" in fields:
                        worlds = self._kill_place(worlds, sub)
                    else:
                        for f in fields:
                            worlds = self._kill_place(worlds, sub + "." + f)
                else:
                    worlds = self._kill_place(worlds, sub)
        dest = fn.place_str(t["dest"])
        worlds = self._kill_place(worlds, dest)
        if self.gen and t["dest"]["ty"] == "bool" and self.track(("val", dest)):
            # correlate a bound boolean call result with the predicate it came from
            ei = self.eb.call(b, t)
            ct = self.cond._cons(fn, ei, BOOL_TRUE, 0)
            cf = self.cond._cons(fn, ei, BOOL_FALSE, 0)
            out = set()
            for w in worlds:
                for cs, bit in ((ct, 1), (cf, 0)):
                    cur = world_set(w, ("val", dest), (True, frozenset([bit])))
                    for key, vs in cs:
                        cur = world_refine(cur, key, vs)
                        if cur is None:
                            break
                    if cur is not None:
                        out.add(cur)
            worlds = frozenset(out)
        return worlds

    def _run(self):
        fn = self.fn
        inn = defaultdict(frozenset)
        inn[0] = self.entry
        work = [0]
        self.out_edges = {}
        iters = 0
        while work:
            b = work.pop()
            iters += 1
            if iters > 20000:
                raise RuntimeError("dataflow did not converge in " + fn.norm)
            worlds = inn[b]
            blk = fn.blocks[b]
            for s in blk["stmts"]:
                worlds = self.stmt(worlds, s)
            t = blk["term"]
            succ = fn.succs(b)
            if t["k"] == "call":
                worlds = self.call(worlds, b, t)
                outs = [(succ[0][0], worlds)] if succ else []
            elif t["k"] == "switch":
                cons = self.cond.edges(fn, self.eb, t, self.eb_v)
                outs = []
                for (tb, lab), cs in zip(succ, cons):
                    ws = set()
                    for w in worlds:
                        cur = w
                        for key, vs in cs:
                            cur = world_refine(cur, key, vs)
                            if cur is None:
                                break
                        if cur is not None:
                            ws.add(cur)
                    outs.append((tb, frozenset(ws)))
            elif t["k"] == "yield":
                # anything may happen to shared state across an await point, but the
                # tracked object is owned by this task; only kill the resume arg
                worlds = self._kill_place(worlds, fn.place_str(t["resume_arg"]))
                outs = [(succ[0][0], worlds)]
            elif t["k"] == "drop":
                outs = [(s, worlds) for s, _ in succ]
            else:
                outs = [(s, worlds) for s, _ in succ]
            for tb, ws in outs:
                if not ws:
                    continue
                new = trim(inn[tb] | ws)
                if new != inn[tb]:
                    inn[tb] = new
                    work.append(tb)
        self.inn = inn

    # -- queries
    def at_term(self, b):
        worlds = self.inn.get(b, frozenset())
        for s in self.fn.blocks[b]["stmts"]:
            worlds = self.stmt(worlds, s)
        return worlds

    def at_stmt(self, b, idx):
        worlds = self.inn.get(b, frozenset())
        for s in self.fn.blocks[b]["stmts"][:idx]:
            worlds = self.stmt(worlds, s)
        return worlds

    def after_call(self, b):
        worlds = self.at_term(b)
        return self.call(worlds, b, self.fn.blocks[b]["term"])


def world_str(w):
    parts = []
    for key, (pos, s) in sorted(w, key=lambda kv: str(kv[0])):
        name = key[1] if key[0] in ("val", "dexpr", "expr") else (key[1].split("::")[-1] + "(" + ",".join(key[2]) + ")" if key[0] == "call" else key[1])
        vals = "|".join(str(x) for x in sorted(s, key=str))
        parts.append("%s%s{%s}" % (name, "∈" if pos else "∉", vals))
    return "{" + ", ".join(parts) + "}" if parts else "{⊤}"


class Inter:
    """Whole-impl forward dataflow: entry worlds of a method are the join over its
    call sites (receiver `self`) of the caller's worlds restricted to `self` keys;
    `entries` start from TOP."""

    def __init__(self, prog, mods, fns, entries, track, carry=None, user_stop=False):
        self.prog = prog
        self.mods = mods
        self.fns = {f.norm: f for f in fns}
        self.track = track
        self.carry = carry
        self.user_stop = user_stop
        self.entry = {n: frozenset() for n in self.fns}
        self.origin = {}
        for e in entries:
            self.entry[e.norm] = frozenset([TOP])
            self.origin[e.norm] = None
        self.flows = {}
        self._run()

    def _run(self):
        work = [n for n, w in self.entry.items() if w]
        rounds = 0
        while work:
            n = work.pop()
            rounds += 1
            if rounds > 2000:
                raise RuntimeError("interprocedural dataflow did not converge")
            fn = self.fns[n]
            fl = Flow(self.prog, self.mods, fn, self.track, entry=self.entry[n], user_stop=self.user_stop)
            self.flows[n] = fl
            root = fl.self_name
            for b, t in fn.all_calls():
                tgts = [g for g in self.prog.call_targets(t) if g.norm in self.fns]
                if not tgts:
                    continue
                e = fl.eb_raw.call(b, t)
                if not e[3]:
                    continue
                recv = e[3][0]
                r = recv
                while r[0] == "ref":
                    r = r[2]
                if not (r[0] == "place" and root is not None and r[1] == root):
                    # receiver is not our own `self`: callee starts from TOP
                    for g in tgts:
                        self._merge(g.norm, frozenset([TOP]), (n, b, t["span"]["line"]), work)
                    continue
                ws = fl.at_term(b)
                if not ws:
                    continue
                for g in tgts:
                    groot = self.mods._self_name(g) or "self"
                    proj = frozenset(self._project(w, root, groot) for w in ws)
                    if self.carry:
                        proj = frozenset(
                            frozenset(dict(list(self._project(w, root, groot)) + self.carry(dict(w), fn)).items())
                            for w in ws
                        )
                    self._merge(g.norm, proj, (n, b, t["span"]["line"]), work)

    def _project(self, w, root, groot):
        out = {}
        for key, vs in w:
            reads = Cond.key_reads(None, key)
            if key[0] == "val" and key[1].startswith("<"):
                out[key] = vs
                continue
            if all(r == root or r.startswith(root + ".") for r in reads) and reads:
                if root != groot:
                    continue
                out[key] = vs
        return frozenset(out.items())

    def _merge(self, n, ws, origin, work):
        new = trim(self.entry[n] | ws)
        if new != self.entry[n]:
            self.entry[n] = new
            self.origin.setdefault(n, origin)
            if n not in work:
                work.append(n)

    def chain(self, n):
        out = []
        seen = set()
        while n is not None and n not in seen:
            seen.add(n)
            o = self.origin.get(n)
            out.append((n, o[2] if o else None))
            n = o[0] if o else None
        return list(reversed(out))
