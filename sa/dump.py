"""Debug helper: print MIR of functions matching a suffix, with reconstructed expressions."""
import sys, os
sys.path.insert(0, os.path.dirname(os.path.abspath(__file__)))
from facts import extract
from core import *

def dump(prog, fn):
    eb = ExprBuilder(prog, fn)
    print("==", fn.norm, fn.where, "args", fn.arg_count)
    for b in fn.live_blocks():
        blk = fn.blocks[b]
        print(" bb%d:" % b)
        for j, s in enumerate(blk["stmts"]):
            if s["k"] == "assign":
                print("    %s = %s" % (fn.place_str(s["place"]), expr_str(eb.rvalue(s["rv"]))))
        t = blk["term"]
        if t["k"] == "call":
            print("    %s = CALL %s  -> bb%s  [L%d]" % (fn.place_str(t["dest"]), expr_str(eb.call(b, t)), t["target"], t["span"]["line"]))
        elif t["k"] == "switch":
            print("    SWITCH %s %s else bb%d" % (expr_str(eb.operand(t["discr"])), t["targets"], t["otherwise"]))
        elif t["k"] == "assert":
            print("    ASSERT %s %s == %s -> bb%d" % (t["msg"], expr_str(eb.operand(t["cond"])), t["expected"], t["target"]))
        else:
            print("    %s %s" % (t["k"], t.get("target", "")))

if __name__ == "__main__":
    facts, th = extract()
    prog = Program(facts)
    for suf in sys.argv[1:]:
        for f in prog.find(suf):
            dump(prog, f)
