"""Normalisation: splice *new* private helper functions into their callers.

Rules are anchored on the functions the pinned tree has (`RecvTransaction::finalize_receive`,
`PDUHeader::decode`, ...).  An "extract method" refactoring moves part of such a function into
a new private helper; behaviour is unchanged but the anchored function no longer contains the
code the rule reasons about.  Before the program model is built, every function that

  * is not in the table of functions known at the pinned tree (`known_fns.json`),
  * is a plain `fn` / inherent method (not a trait method, not a closure, not `async`),
  * is not public, is not recursive, and is called directly somewhere in the workspace,

is spliced into each of its call sites at the MIR level (locals and blocks renumbered, the
parameters assigned from the call's arguments, every `return` replaced by an assignment of the
call's destination and a jump to the call's target) and removed as a function of its own
(unless it is also referenced as a function value).  The analyses then see one body, as they
did before the split.  Functions that exist at the pin are never touched, so on the pinned
tree this pass is the identity.  What was inlined is reported in the evidence."""
import copy
import json
import os
import re

from core import strip_generics

HERE = os.path.dirname(os.path.abspath(__file__))
KNOWN_PATH = os.path.join(HERE, "known_fns.json")
MAX_BLOCKS = 400
MAX_ROUNDS = 4


def load_known():
    with open(KNOWN_PATH) as fh:
        return set(json.load(fh)["functions"])


def _walk(o, fn):
    if isinstance(o, dict):
        fn(o)
        for v in o.values():
            _walk(v, fn)
    elif isinstance(o, list):
        for v in o:
            _walk(v, fn)


def _shift(obj, loff, boff):
    def f(d):
        if isinstance(d.get("local"), int) and not isinstance(d.get("local"), bool):
            d["local"] += loff

    _walk(obj, f)
    for blk in obj if isinstance(obj, list) else []:
        t = blk.get("term") if isinstance(blk, dict) else None
        if not t:
            continue
        for k in ("target", "otherwise", "unwind", "imaginary"):
            if isinstance(t.get(k), int) and not isinstance(t.get(k), bool):
                t[k] += boff
        if "targets" in t:
            t["targets"] = [[v, b + boff] for v, b in t["targets"]]


def _fn_refs(body, exclude_call_func=True):
    """Paths of functions referenced as values (not as the callee of a direct call)."""
    out = set()
    for blk in body["blocks"]:
        def f(d):
            if d.get("k") == "const" and d.get("fn"):
                out.add(strip_generics(d["fn"]))

        for s in blk["stmts"]:
            _walk(s, f)
        t = blk["term"]
        for k, v in t.items():
            if k == "func" and t.get("k") == "call" and exclude_call_func:
                continue
            _walk(v, f)
    return out


def _callee(t):
    if t.get("k") != "call":
        return None
    fu = t.get("func") or {}
    if fu.get("k") != "const":
        return None
    r = fu.get("resolved") if fu.get("resolved_local") else None
    p = r or (fu.get("fn") if fu.get("fn_local") else None)
    return strip_generics(p) if p else None


def _is_async(body):
    if body.get("coroutine"):
        return True
    for blk in body["blocks"]:
        for s in blk["stmts"]:
            if s.get("k") == "assign" and s["rv"].get("k") == "agg" and s["rv"].get("agg") in ("coroutine", "coroutine_closure"):
                return True
    return False


def _root_self(body, local, depth=0):
    """Does `local` hold (a reborrow / copy of) the caller's own `self` (local 1)?"""
    if depth > 6:
        return False
    if local == 1:
        return any(v["name"] == "self" and v["value"].get("local") == 1 and not v["value"].get("proj") for v in body["vars"])
    defs = []
    for blk in body["blocks"]:
        for s in blk["stmts"]:
            if s.get("k") == "assign" and s["place"]["local"] == local and not s["place"]["proj"]:
                defs.append(s["rv"])
    if len(defs) != 1:
        return False
    rv = defs[0]
    if rv["k"] == "use" and rv["op"].get("k") in ("move", "copy") and not rv["op"]["place"]["proj"]:
        return _root_self(body, rv["op"]["place"]["local"], depth + 1)
    if rv["k"] == "ref" and [p.get("k") for p in rv["place"]["proj"]] == ["deref"]:
        return _root_self(body, rv["place"]["local"], depth + 1)
    return False


def _ref_target(body, local, depth=0):
    """The caller place a reference-typed local points to (`r = &[mut] P`, through moves and reborrows), when
    P is a path of derefs / fields only; else None."""
    if depth > 8:
        return None
    if 1 <= local <= body["arg_count"]:
        return None
    defs = []
    for blk in body["blocks"]:
        for s in blk["stmts"]:
            if s.get("k") == "assign" and s["place"]["local"] == local and not s["place"]["proj"]:
                defs.append(s["rv"])
        t = blk["term"]
        if t.get("k") == "call" and t["dest"]["local"] == local and not t["dest"]["proj"]:
            return None
    if len(defs) != 1:
        return None
    rv = defs[0]
    if rv["k"] == "use" and rv["op"].get("k") in ("move", "copy") and not rv["op"]["place"]["proj"]:
        return _ref_target(body, rv["op"]["place"]["local"], depth + 1)
    if rv["k"] == "ref":
        pl = rv["place"]
        if not all(e.get("k") in ("deref", "field") for e in pl["proj"]):
            return None
        if pl["proj"] and pl["proj"][0].get("k") == "deref":
            inner = _ref_target(body, pl["local"], depth + 1)
            if inner is not None:
                return {"local": inner["local"], "proj": inner["proj"] + pl["proj"][1:]}
        return {"local": pl["local"], "proj": list(pl["proj"])}
    return None


def _param_reassigned(helper, idx):
    for blk in helper["blocks"]:
        for s in blk["stmts"]:
            if s.get("k") in ("assign", "setdiscr") and s["place"]["local"] == idx and not s["place"]["proj"]:
                return True
        t = blk["term"]
        if t.get("k") == "call" and t["dest"]["local"] == idx and not t["dest"]["proj"]:
            return True
    return False


def _retarget(obj, local, target):
    """Rewrite every place `(*local).rest` in obj to `target.rest`."""

    def f(d):
        if d.get("local") == local and isinstance(d.get("proj"), list) and d["proj"] and d["proj"][0].get("k") == "deref" and not isinstance(d.get("local"), bool):
            d["local"] = target["local"]
            d["proj"] = copy.deepcopy(target["proj"]) + d["proj"][1:]

    _walk(obj, f)


_TOK = re.compile(r"[A-Za-z_][A-Za-z0-9_]*|\d+(?:_usize)?|\S")


def _bind_generics(pairs):
    """Bindings {generic parameter name: concrete text} read off by matching a helper's declared types against
    the types at the call site (`[u8; N]` against `[u8; 8]`): single upper-case-initial identifiers only."""
    out = {}
    for gen, conc in pairs:
        if not isinstance(gen, str) or not isinstance(conc, str) or gen == conc:
            continue
        a, b = _TOK.findall(gen), _TOK.findall(conc)
        if len(a) != len(b):
            continue
        cand = {}
        okp = True
        for x, y in zip(a, b):
            if x == y:
                continue
            if re.match(r"^[A-Z][A-Za-z0-9_]*$", x) and re.match(r"^\d+(_usize)?$", y) and cand.get(x, y) == y:
                cand[x] = y
            else:
                okp = False
                break
        if okp:
            for k, v in cand.items():
                if out.get(k, v) == v:
                    out[k] = v
    return out


def _subst_types(obj, binds):
    if not binds:
        return
    rx = re.compile(r"\b(%s)\b" % "|".join(re.escape(k) for k in binds))

    def f(d):
        ty = d.get("ty")
        if isinstance(ty, str) and rx.search(ty):
            d["ty"] = rx.sub(lambda m: binds[m.group(1)], ty)

    _walk(obj, f)


def _splice(caller, bi, helper):
    """Replace the call terminating caller block `bi` by the body of `helper`."""
    t = caller["blocks"][bi]["term"]
    N = len(caller["locals"])
    M = len(caller["blocks"])
    hb = copy.deepcopy(helper["blocks"])
    _shift(hb, N, M)
    hl = copy.deepcopy(helper["locals"])
    for l in hl:
        l["i"] += N
    # const generics of the helper, as instantiated at this call
    pairs = [(helper["locals"][0]["ty"], t["dest"].get("ty"))]
    for i, a in enumerate(t["args"]):
        if 1 + i < len(helper["locals"]) and a.get("place"):
            pairs.append((helper["locals"][1 + i]["ty"], a["place"].get("ty")))
    binds = _bind_generics(pairs)
    _subst_types(hb, binds)
    _subst_types(hl, binds)
    hv = copy.deepcopy(helper["vars"])
    self_is_self = bool(t["args"]) and t["args"][0].get("k") in ("move", "copy") and not t["args"][0]["place"]["proj"] and _root_self(caller, t["args"][0]["place"]["local"])
    for v in hv:
        _shift(v["value"], N, 0)
        if v["name"] == "self" and not self_is_self:
            v["name"] = "self__of_" + helper["name"]
        v["arg"] = None
        v["inlined_from"] = helper["path"]
    # parameters <- arguments
    pre = []
    for i, a in enumerate(t["args"]):
        loc = N + 1 + i
        ty = hl[1 + i]["ty"] if 1 + i < len(hl) else None
        pre.append({"k": "assign", "place": {"local": loc, "proj": [], "ty": ty}, "rv": {"k": "use", "op": a}, "span": t["span"], "inlined_arg": True})
    # a parameter that is a reference to a place of the caller (`helper(&mut buffer)`): what the helper does
    # through it, it does to that place
    for i, a in enumerate(t["args"]):
        ty = hl[1 + i]["ty"] if 1 + i < len(hl) else ""
        if not (isinstance(ty, str) and ty.startswith("&")) or a.get("k") not in ("move", "copy") or a["place"]["proj"]:
            continue
        if _param_reassigned(helper, 1 + i):
            continue
        tgt = _ref_target(caller, a["place"]["local"])
        if tgt is not None:
            _retarget(hb, N + 1 + i, tgt)
    dest = t["dest"]
    target = t.get("target")
    unwind = t.get("unwind")
    for blk in hb:
        ht = blk["term"]
        if ht["k"] == "return":
            blk["stmts"].append({"k": "assign", "place": dest, "rv": {"k": "use", "op": {"k": "move", "place": {"local": N, "proj": [], "ty": hl[0]["ty"]}}}, "span": ht["span"], "inlined_ret": True})
            blk["term"] = {"k": "goto", "target": target, "span": ht["span"]} if target is not None else {"k": "unreachable", "span": ht["span"]}
        elif ht["k"] in ("resume", "unwind_resume") and isinstance(unwind, int):
            blk["term"] = {"k": "goto", "target": unwind, "span": ht["span"]}
    caller["blocks"][bi]["stmts"] = caller["blocks"][bi]["stmts"] + pre
    caller["blocks"][bi]["term"] = {"k": "goto", "target": M, "span": t["span"], "inlined_call": helper["path"]}
    caller["locals"] = caller["locals"] + hl
    caller["vars"] = caller["vars"] + hv
    caller["blocks"] = caller["blocks"] + hb


def inline_new_helpers(facts, known=None):
    """facts: {crate: facts}. Returns (facts', report). The input is not modified."""
    known = load_known() if known is None else known
    report = []
    index = {}
    for crate, f in facts.items():
        for b in f["bodies"]:
            index[strip_generics(b["path"])] = (crate, b)

    def candidates():
        out = {}
        for norm, (crate, b) in index.items():
            if norm in known or b["kind"] not in ("Fn", "AssocFn"):
                continue
            if b.get("impl_trait") or b.get("in_trait") or _is_async(b):
                continue
            if (b.get("vis") or "").startswith("Public"):
                continue
            if len(b["blocks"]) > MAX_BLOCKS:
                continue
            out[norm] = b
        return out

    cands = candidates()
    if not cands:
        return facts, report
    # work on copies of every body that may change
    facts2 = {}
    for crate, f in facts.items():
        f2 = dict(f)
        f2["bodies"] = list(f["bodies"])
        facts2[crate] = f2
    index = {}
    for crate, f in facts2.items():
        for i, b in enumerate(f["bodies"]):
            index[strip_generics(b["path"])] = (crate, i)

    def body(norm):
        crate, i = index[norm]
        return facts2[crate]["bodies"][i]

    def set_body(norm, b):
        crate, i = index[norm]
        facts2[crate]["bodies"][i] = b

    # recursion: a helper that reaches itself through helper calls is left alone
    def calls_of(b):
        return {c for blk in b["blocks"] for c in [_callee(blk["term"])] if c}

    rec = set()
    for h in cands:
        seen = set()
        st = list(calls_of(cands[h]) & set(cands))
        while st:
            x = st.pop()
            if x == h:
                rec.add(h)
                break
            if x in seen:
                continue
            seen.add(x)
            st.extend(calls_of(cands[x]) & set(cands))
    for h in rec:
        cands.pop(h)
    copied = set()
    inlined_sites = {}
    for _round in range(MAX_ROUNDS):
        changed = False
        for norm in list(index):
            b = body(norm)
            if b is None:
                continue
            sites = [bi for bi, blk in enumerate(b["blocks"]) if _callee(blk["term"]) in cands and _callee(blk["term"]) != norm]
            if not sites:
                continue
            if norm not in copied:
                b = copy.deepcopy(b)
                copied.add(norm)
                set_body(norm, b)
            for bi in sites:
                h = _callee(b["blocks"][bi]["term"])
                hbody = body(h)
                if len(b["blocks"]) + len(hbody["blocks"]) > 4 * MAX_BLOCKS:
                    continue
                line = b["blocks"][bi]["term"]["span"]["line"]
                _splice(b, bi, hbody)
                inlined_sites.setdefault(h, []).append("%s:%d" % (norm, line))
                changed = True
        if not changed:
            break
    # drop helpers that are no longer called directly and are not used as function values
    refs = set()
    remaining_calls = set()
    for norm in index:
        b = body(norm)
        refs |= _fn_refs(b)
        if norm not in cands:
            remaining_calls |= calls_of(b)
    for h in cands:
        if h not in inlined_sites:
            continue
        keep = h in refs or h in remaining_calls
        report.append({"helper": h, "inlined_at": sorted(set(inlined_sites[h])), "kept_as_function": keep})
        if not keep:
            crate, i = index[h]
            facts2[crate]["bodies"][i] = None
            # closures of the helper now belong to (the first of) its callers
            first = inlined_sites[h][0].rsplit(":", 1)[0]
            fb = body(first)
            for norm in index:
                b = body(norm)
                if b is None or b["kind"] != "Closure":
                    continue
                if strip_generics(b.get("parent", "")) == h or strip_generics(b.get("root", "")) == h:
                    b2 = dict(b)
                    if strip_generics(b.get("parent", "")) == h:
                        b2["parent"] = fb["path"]
                    if strip_generics(b.get("root", "")) == h:
                        b2["root"] = fb.get("root") or fb["path"]
                    set_body(norm, b2)
    for crate, f in facts2.items():
        f["bodies"] = [b for b in f["bodies"] if b is not None]
    return facts2, report
