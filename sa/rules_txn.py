"""Typestate / guarded-reachability rules over the receive and send transactions:
C01 (publication discipline), C04 (finalisation typestate), C10 (no partial
file), C13-Q2/Q3 (request sequencing), C18 (unacknowledged mode), C19 (suspend)."""
import re

from core import ExprBuilder, callee_name, expr_str, short, strip_generics, walk, places_in, calls_in
from df import Flow, world_str, BOOL_TRUE
from engine import rule, ok, bad, undecided, at, Anchor
from common import (
    RECV,
    SEND,
    impl_fns,
    impl_and_closures,
    inter,
    call_sites,
    ends,
    agg_sites,
    field_writes,
    all_worlds_satisfy,
    val_in,
    val_not,
    call_key,
    simp,
    sstr,
)
from core import dominators


def _need(fns, what, rid):
    if not fns:
        raise Anchor(rid, what)
    return fns


def track_recv_phase(key):
    return key[0] == "val" and key[1] in (
        "self.recv_state",
        "self.state",
        "self.config.transmission_mode",
        "self.condition",
    )


# ---------------------------------------------------------------- C04-F
@rule("C04", "C04-F", 2, "finalisation is reachable only in the receive-data phase (guarded reachability over the whole impl)", also=("C01", "C10", "C13"))
def c04_f(ctx):
    fns = _need(impl_fns(ctx, RECV), "impl RecvTransaction", "C04-F")
    it = inter(ctx, RECV, track_recv_phase, "phase")
    n = 0
    for f, b, t, d, r in call_sites(fns, ends("RecvTransaction::finalize_receive"), ctx.prog):
        n += 1
        key = "%s->finalize_receive" % f.name
        fl = it.flows.get(f.norm)
        if fl is None:
            yield ok("C04-F", key, at(f, t["span"]["line"]), "caller unreachable from any entry point", nontrivial=False)
            continue
        worlds = fl.at_term(b)
        good, w = all_worlds_satisfy(worlds, lambda d_: val_in(d_, "self.recv_state", {"ReceiveData"}))
        chain = " -> ".join("%s%s" % (short(nm), "@L%d" % ln if ln else "") for nm, ln in it.chain(f.norm))
        if good:
            yield ok("C04-F", key, at(f, t["span"]["line"]), {"worlds": [world_str(x) for x in worlds], "chain": chain})
        else:
            yield bad("C04-F", key, at(f, t["span"]["line"]), "finalize_receive reachable without recv_state == ReceiveData; state %s; chain %s -> finalize_receive@L%d" % (world_str(w), chain, t["span"]["line"]))
    if n == 0:
        raise Anchor("C04-F", "call sites of RecvTransaction::finalize_receive")


# ---------------------------------------------------------------- C04-P
def _blocks_leaving_phase(ctx, f):
    """Blocks that assign recv_state a non-receiving phase or call a function that
    must reach `state = Terminated` (shutdown / abandon)."""
    out = set()
    for b in f.live_blocks():
        blk = f.blocks[b]
        for s in blk["stmts"]:
            if s["k"] == "assign" and f.place_str(s["place"]) == "self.recv_state":
                rv = s["rv"]
                e = ExprBuilder(ctx.prog, f).rvalue(rv)
                leaves = [e] if e[0] != "phi" else list(e[2])
                if all(x[0] == "agg" and x[3] in ("Finished", "Cancelled") for x in leaves):
                    out.add(b)
        t = blk["term"]
        if t["k"] == "call":
            d, r, _ = ctx.prog.callee_of(t)
            nm = r or d or ""
            if nm.endswith("RecvTransaction::shutdown") or nm.endswith("RecvTransaction::abandon"):
                out.add(b)
    return out


def _error_exit_blocks(ctx, f):
    out = set()
    for b, t in f.all_calls():
        d, r, _ = ctx.prog.callee_of(t)
        if (d or "").endswith("FromResidual::from_residual") or (r or "").endswith("::from_residual"):
            out.add(b)
    # `Err(e) => return Err(e)` written out: the return value is built as an Err here
    for b in f.live_blocks():
        for st in f.blocks[b]["stmts"]:
            if st["k"] == "assign" and st["place"]["local"] == 0 and not st["place"]["proj"] and st["rv"]["k"] == "agg" and st["rv"].get("variant") == "Err" and "Result" in (st["rv"].get("adt") or ""):
                out.add(b)
    return out


@rule("C04", "C04-P", 2, "every successful return from finalisation leaves the receive-data phase before control returns to the loop")
def c04_p(ctx):
    fns = impl_fns(ctx, RECV)
    for f, b, t, d, r in call_sites(fns, ends("RecvTransaction::finalize_receive"), ctx.prog):
        key = "%s->finalize_receive" % f.name
        leave = _blocks_leaving_phase(ctx, f)
        err = _error_exit_blocks(ctx, f)
        start = t["target"]
        reach = f.reachable(start, avoid=leave | err)
        rets = [x for x in reach if f.blocks[x]["term"]["k"] == "return"]
        if rets:
            yield bad("C04-P", key, at(f, t["span"]["line"]), "a path from the return of finalize_receive reaches `return` (bb%s) without assigning recv_state a non-receiving phase or calling shutdown/abandon" % rets)
        else:
            yield ok("C04-P", key, at(f, t["span"]["line"]), {"phase_leaving_blocks": sorted(leave), "error_exits": sorted(err)})


# ---------------------------------------------------------------- C04-Q
@rule("C04", "C04-Q", 1, "filestore requests are executed from exactly one place: finalisation", also=("C13",))
def c04_q(ctx):
    daemon = [f for f in ctx.prog.by_norm.values() if f.crate == "cfdp_daemon"]
    sites = list(call_sites(daemon, ends("FileStore::process_request"), ctx.prog))
    for f, b, t, d, r in sites:
        root = f.root or f.norm
        good = root.endswith("RecvTransaction::finalize_receive") and len(sites) == 1
        key = "%s->process_request" % short(root)
        if good:
            yield ok("C04-Q", key, at(f, t["span"]["line"]), "single call site, inside finalize_receive")
        else:
            yield bad("C04-Q", key, at(f, t["span"]["line"]), "FileStore::process_request called outside finalize_receive or from more than one site (%d sites)" % len(sites))


# ---------------------------------------------------------------- C04-S
@rule("C04", "C04-S", 4, "the sender never manufactures a success outcome: its delivery code / file status come from the Finished PDU or the constructor defaults", also=("C01",))
def c04_s(ctx):
    fns = impl_and_closures(ctx, SEND)
    _need(fns, "impl SendTransaction", "C04-S")
    for f, b, j, s in agg_sites(fns, "DeliveryCode", "Complete"):
        yield bad("C04-S", "%s:constructs DeliveryCode::Complete" % f.name, at(f, s["span"]["line"]), "sender constructs DeliveryCode::Complete")
    for f, b, j, s in agg_sites(fns, "FileStatusCode", "Retained"):
        yield bad("C04-S", "%s:constructs FileStatusCode::Retained" % f.name, at(f, s["span"]["line"]), "sender constructs FileStatusCode::Retained")
    for field, default in (("self.delivery_code", "Incomplete"), ("self.file_status", "Unreported")):
        for f, b, j, s, ps in field_writes(fns, field):
            if j < 0:
                yield bad("C04-S", "%s:%s<-call" % (f.name, field), at(f), "written by a call result")
                continue
            eb = ExprBuilder(ctx.prog, f, user_stop=True)
            e = eb.rvalue(s["rv"])
            key = "%s:%s" % (f.name, field)
            from common import bound_pdu_field
            if e[0] == "place" and bound_pdu_field(eb, e, "@Finished.0", field.split(".")[1]) is not None:
                # the variable must be (a field of) the payload of the received Finished PDU
                yield ok("C04-S", key, at(f, s["span"]["line"]), "%s <- %s (Finished PDU field)" % (field, expr_str(e)))
                continue
            yield bad("C04-S", key, at(f, s["span"]["line"]), "%s written from %s, not from the received Finished PDU" % (field, expr_str(e)))
    # struct literal in `new`: defaults
    for f, b, j, s in agg_sites(fns, "SendTransaction"):
        eb = ExprBuilder(ctx.prog, f, user_stop=True)
        e = eb.rvalue(s["rv"])
        names = e[4]
        vals = dict(zip(names, e[5]))
        for fld, default in (("delivery_code", "Incomplete"), ("file_status", "Unreported")):
            v = vals.get(fld)
            key = "%s:init %s" % (f.name, fld)
            if v is not None and v[0] == "agg" and v[3] == default:
                yield ok("C04-S", key, at(f, s["span"]["line"]), "%s initialised to %s" % (fld, default))
            else:
                yield bad("C04-S", key, at(f, s["span"]["line"]), "%s initialised to %s" % (fld, expr_str(v) if v else "?"))
    # FinishedIndication built by the sender: fields from self.delivery_code / self.file_status
    for f, b, j, s in agg_sites(fns, "FinishedIndication"):
        eb = ExprBuilder(ctx.prog, f, user_stop=True)
        e = eb.rvalue(s["rv"])
        vals = dict(zip(e[4], e[5]))
        for fld, src in (("delivery_code", "self.delivery_code"), ("file_status", "self.file_status")):
            v = vals.get(fld)
            key = "%s:FinishedIndication.%s" % (f.name, fld)
            if v is not None and v[0] == "place" and v[1] == src:
                yield ok("C04-S", key, at(f, s["span"]["line"]), "%s <- %s" % (fld, src))
            else:
                yield bad("C04-S", key, at(f, s["span"]["line"]), "FinishedIndication.%s <- %s" % (fld, expr_str(v) if v else "?"))


# ---------------------------------------------------------------- C01-W / C01-T
WRITE_OPTS = ("write", "create", "append", "truncate", "create_new")
PATH_FS_PREFIXES = ("std::fs::", "tokio::fs::")
# methods on an already opened handle / builders: not path-taking
HANDLE_METHODS = (
    "std::fs::File::options",
    "std::fs::File::sync_all",
    "std::fs::File::sync_data",
    "std::fs::File::metadata",
    "std::fs::File::set_len",
    "std::fs::File::try_clone",
    "std::fs::OpenOptions::new",
    "std::fs::OpenOptions::read",
    "std::fs::OpenOptions::write",
    "std::fs::OpenOptions::append",
    "std::fs::OpenOptions::truncate",
    "std::fs::OpenOptions::create",
    "std::fs::OpenOptions::create_new",
    "std::fs::Metadata::len",
    "std::fs::Metadata::is_file",
    "std::fs::Metadata::is_dir",
    "std::fs::Metadata::modified",
)
MUTATING_FS = ("create_file", "delete_file", "rename_file", "append_file", "replace_file", "create_directory", "remove_directory")


def _raw_fs(nm, decl):
    return nm.startswith(PATH_FS_PREFIXES) and nm not in HANDLE_METHODS and (decl or "") not in HANDLE_METHODS


def _options_chain(e):
    """Builder method names (with constant args) applied in an OpenOptions chain."""
    out = []
    for c in calls_in(e):
        nm = callee_name(c) or ""
        if nm.startswith("std::fs::OpenOptions::") or nm == "std::fs::File::options":
            arg = None
            if len(c[3]) > 1 and c[3][1][0] == "const":
                arg = c[3][1][1]
            out.append((nm.split("::")[-1], arg))
    return out


def _options_chain_at(ctx, f, eb, arg, open_block):
    """The builder calls that shaped the OpenOptions handed over: the chain in the argument expression itself, or -
    when a local is configured first and then passed by reference - the calls made on that local before."""
    chain = _options_chain(arg)
    if chain:
        return chain
    a = arg
    while a[0] == "ref":
        a = a[2]
    if not (a[0] == "place" and re.match(r"^\w+$", a[1])):
        return []
    var = a[1]
    dom = dominators(f)
    out = []
    for d_ in eb.var_defs(var):
        out.extend(_options_chain(d_))
    for b2, t2 in f.all_calls():
        d, r, _ = ctx.prog.callee_of(t2)
        cal = r or d or ""
        if not cal.startswith("std::fs::OpenOptions::"):
            continue
        if not (b2 == open_block or b2 in dom.get(open_block, ())):
            continue
        e2 = eb.call(b2, t2)
        recv = expr_str(e2[3][0]) if e2[3] else ""
        if re.search(r"(?<![\w.])%s(?![\w])" % re.escape(var), recv):
            arg2 = e2[3][1][1] if len(e2[3]) > 1 and e2[3][1][0] == "const" else None
            out.append((cal.split("::")[-1], arg2))
    return out


@rule("C01", "C01-W", 3, "who may write: the daemon opens files for writing only in the staged-file copy and touches the filesystem by path only through FileStore", also=("C10", "C12"))
def c01_w(ctx):
    daemon = [f for f in ctx.prog.by_norm.values() if f.crate == "cfdp_daemon"]
    # (a) FileStore::open call sites and their option chains
    n_open = 0
    for f, b, t, d, r in call_sites(daemon, ends("FileStore::open"), ctx.prog):
        n_open += 1
        eb = ExprBuilder(ctx.prog, f)
        e = eb.call(b, t)
        chain = _options_chain_at(ctx, f, eb, e[3][2], b) if len(e[3]) > 2 else []
        writes = [m for m, a in chain if m in WRITE_OPTS and a == 1]
        root = short(f.root or f.norm)
        key = "%s->FileStore::open[%s]" % (root, "w" if writes else "r")
        if not chain:
            yield undecided("C01-W", key, at(f, t["span"]["line"]), "OpenOptions argument is not a visible builder chain: %s" % expr_str(e[3][2] if len(e[3]) > 2 else e))
        elif writes and not root.endswith("RecvTransaction::finalize_file"):
            yield bad("C01-W", key, at(f, t["span"]["line"]), "file opened for writing (%s) outside RecvTransaction::finalize_file" % ",".join(writes))
        else:
            yield ok("C01-W", key, at(f, t["span"]["line"]), {"options": chain})
    if n_open == 0:
        raise Anchor("C01-W", "FileStore::open call sites in cfdp-daemon")
    # (b) no path-taking std::fs / tokio::fs API in the daemon crate
    raw = 0
    for f in daemon:
        for b, t in f.all_calls():
            d, r, _ = ctx.prog.callee_of(t)
            nm = r or d or ""
            if _raw_fs(nm, d or ""):
                raw += 1
                yield bad("C01-W", "%s->%s" % (short(f.root or f.norm), nm), at(f, t["span"]["line"]), "path-taking filesystem API %s called in cfdp-daemon outside the FileStore trait" % nm)
    yield ok("C01-W", "daemon:no-raw-fs", "cfdp-daemon (all %d bodies)" % len(daemon), "0 path-taking std::fs/tokio::fs calls", nontrivial=True)
    # (c) mutating FileStore methods are not called by the daemon directly
    for m in MUTATING_FS:
        for f, b, t, d, r in call_sites(daemon, ends("FileStore::" + m), ctx.prog):
            yield bad("C01-W", "%s->FileStore::%s" % (short(f.root or f.norm), m), at(f, t["span"]["line"]), "mutating FileStore method called directly by the daemon (only process_request may)")
    yield ok("C01-W", "daemon:no-direct-mutators", "cfdp-daemon", "0 direct calls of %s" % ",".join(MUTATING_FS))


@rule("C01", "C01-T", 1, "the destination is opened truncating (a stale longer file cannot keep its tail)")
def c01_t(ctx):
    f = ctx.one("C01-T", "RecvTransaction::finalize_file")
    n = 0
    for f, b, t, d, r in call_sites([f], ends("FileStore::open"), ctx.prog):
        n += 1
        eb = ExprBuilder(ctx.prog, f)
        e = eb.call(b, t)
        chain = _options_chain_at(ctx, f, eb, e[3][2], b) if len(e[3]) > 2 else []
        if ("truncate", 1) in chain and ("write", 1) in chain:
            yield ok("C01-T", "finalize_file:open", at(f, t["span"]["line"]), {"options": chain})
        else:
            yield bad("C01-T", "finalize_file:open", at(f, t["span"]["line"]), "destination opened without truncate(true)+write(true): %s" % chain)
    if n == 0:
        raise Anchor("C01-T", "FileStore::open in finalize_file")


# ---------------------------------------------------------------- C01-V
@rule("C01", "C01-V", 1, "the staged file is copied to the destination only after the checksum check (or after the configured handler let a checksum fault pass)")
def c01_v(ctx):
    f = ctx.one("C01-V", "RecvTransaction::finalize_receive")

    def track(key):
        if key[0] == "expr":
            return "verify_checksum" in key[1] or "handle_fault" in key[1] or "FileChecksum>::checksum(" in key[1]
        return False

    fl = Flow(ctx.prog, ctx.mods, f, track)
    n = 0
    inlined_compare = []
    for f2, b, t, d, r in call_sites([f], ends("RecvTransaction::finalize_file"), ctx.prog):
        n += 1
        worlds = fl.at_term(b)

        def guard(dw):
            for k, (pos, s) in dw.items():
                if k[0] == "expr" and pos and s == frozenset([1]):
                    if "RecvTransaction::verify_checksum(" in k[1] and "handle_fault" not in k[1]:
                        return True
                    if "RecvTransaction::handle_fault(&mut self, pdu::Condition::FileChecksumFailure" in k[1]:
                        return True
                    # the comparison itself (verify_checksum written out in place): checksum(staged file) == self.checksum
                    m = re.match(r"^Eq\((.*)\)$", k[1])
                    if m and "FileChecksum>::checksum(" in k[1] and "RecvTransaction::get_handle(" in k[1] and "self.checksum" in k[1] and "handle_fault" not in k[1]:
                        inlined_compare.append(k[1])
                        return True
            return False

        good, w = all_worlds_satisfy(worlds, guard)
        if good and worlds:
            yield ok("C01-V", "finalize_receive->finalize_file", at(f, t["span"]["line"]), {"worlds": [world_str(x) for x in worlds]})
        else:
            yield bad("C01-V", "finalize_receive->finalize_file", at(f, t["span"]["line"]), "finalize_file reachable without verify_checksum()==true (or a passed FileChecksumFailure handler): state %s" % (world_str(w) if w is not None else "unreachable"))
    if n == 0:
        raise Anchor("C01-V", "call of finalize_file in finalize_receive")
    # provenance of the compared value: verify_checksum compares FileChecksum::checksum(handle, meta.checksum_type) with its argument
    g = ctx.one("C01-V", "RecvTransaction::verify_checksum")
    ebg = ExprBuilder(ctx.prog, g)
    found = False
    param_idx = None
    params = {vn: l for vn, l, pj in g.var_places if not pj and 2 <= l <= g.arg_count}
    for b in g.live_blocks():
        for s in g.blocks[b]["stmts"]:
            if s["k"] == "assign" and s["rv"]["k"] == "binop" and s["rv"]["op"] == "Eq":
                e = simp(ebg.rvalue(s["rv"]))
                sides = [expr_str(e[2]), expr_str(e[3])]
                comp = [x for x in sides if "FileChecksum>::checksum(" in x]
                other = [x for x in sides if "FileChecksum>::checksum(" not in x]
                if len(comp) != 1 or len(other) != 1:
                    continue
                o = other[0]
                if o in params:
                    param_idx = params[o] - 1
                    found = True
                    yield ok("C01-V", "verify_checksum:compare", at(g, s["span"]["line"]), "%s == parameter `%s`" % (comp[0][:200], o))
                elif re.match(r"^self\.checksum(@Some\.0)?$", o):
                    found = True
                    yield ok("C01-V", "verify_checksum:compare", at(g, s["span"]["line"]), "%s == %s" % (comp[0][:200], o))
    if not found:
        yield bad("C01-V", "verify_checksum:compare", at(g), "verify_checksum does not compare FileChecksum::checksum(staged file) with the expected checksum (its parameter or self.checksum)")
    # the argument at the call site originates from self.checksum, written only from the EOF PDU
    for f2, b, t, d, r in call_sites([f], ends("RecvTransaction::verify_checksum"), ctx.prog):
        if param_idx is None:
            if found:
                yield ok("C01-V", "verify_checksum:arg", at(f, t["span"]["line"]), "the expected value is read from self.checksum inside verify_checksum")
            continue
        e = ExprBuilder(ctx.prog, f).call(b, t)
        a = expr_str(e[3][param_idx]) if len(e[3]) > param_idx else "?"
        if "self.checksum" in a:
            yield ok("C01-V", "verify_checksum:arg", at(f, t["span"]["line"]), a[:200])
        else:
            yield bad("C01-V", "verify_checksum:arg", at(f, t["span"]["line"]), "checksum argument does not originate in self.checksum: " + a[:200])
    fns = impl_and_closures(ctx, RECV)
    for f3, b, j, s, ps in field_writes(fns, "self.checksum"):
        if f3.name == "new":
            continue
        eb3 = ExprBuilder(ctx.prog, f3, user_stop=True)
        e = eb3.rvalue(s["rv"]) if j >= 0 else None
        txt = expr_str(e) if e else "call result"
        meof = re.search(r"\{(\w+)\.checksum\}$", txt)
        key = "%s:self.checksum<-%s" % (f3.name, "eof" if meof else "other")
        if e is not None and meof and eb3.var_defs(meof.group(1)) and all("@EoF.0" in expr_str(x) for x in eb3.var_defs(meof.group(1))):
            yield ok("C01-V", key, at(f3, s["span"]["line"]), txt)
        else:
            yield bad("C01-V", key, at(f3, s["span"]["line"]), "self.checksum written from %s, not from the EOF PDU" % txt)


# ---------------------------------------------------------------- C01-K
@rule("C01", "C01-K", 1, "a Complete delivery code is produced only past the metadata and completeness tests", also=("C10", "C18"))
def c01_k(ctx):
    fns = impl_and_closures(ctx, RECV)
    sites = list(agg_sites(fns, "DeliveryCode", "Complete"))
    if not sites:
        raise Anchor("C01-K", "construction of DeliveryCode::Complete in the receiver")

    def track(key):
        if key[0] == "val":
            p = key[1]
            return p in ("self.metadata", "self.file_size") or "." not in p
        if key[0] == "call":
            return key[1].endswith("is_file_transfer") or key[1].endswith("Segments::is_complete") or key[1].endswith("has_naks")
        return False

    for f, b, j, s in sites:
        fl = Flow(ctx.prog, ctx.mods, f, track)
        worlds = fl.at_stmt(b, j)

        def guard(dw):
            if not val_in(dw, "self.metadata", {"Some"}):
                return False
            if call_key(dw, "RecvTransaction::is_file_transfer", False):
                return True
            return call_key(dw, "Segments::is_complete", True, arg_contains="self.file_size@Some.0") and call_key(dw, "Segments::is_complete", True, arg_contains="self.saved_segments")

        good, w = all_worlds_satisfy(worlds, guard)
        key = "%s:DeliveryCode::Complete" % f.name
        if good and worlds:
            yield ok("C01-K", key, at(f, s["span"]["line"]), {"worlds": [world_str(x) for x in worlds]})
        else:
            yield bad("C01-K", key, at(f, s["span"]["line"]), "DeliveryCode::Complete produced without metadata.is_some() ∧ (¬is_file_transfer() ∨ saved_segments.is_complete(file_size)): state %s" % (world_str(w) if w is not None else "unreachable"))
    # every write of self.delivery_code is a DeliveryCode constant (possibly selected by a branch)
    for f, b, j, s, ps in field_writes(fns, "self.delivery_code"):
        e = ExprBuilder(ctx.prog, f).rvalue(s["rv"]) if j >= 0 else ("other",)
        leaves = list(e[2]) if e[0] == "phi" else [e]
        key = "%s:self.delivery_code<-" % f.name
        if all(x[0] == "agg" and x[2].endswith("DeliveryCode") for x in leaves):
            yield ok("C01-K", key + "const", at(f, s["span"]["line"]), expr_str(e))
        else:
            yield bad("C01-K", key + "other", at(f, s["span"]["line"]), "self.delivery_code written from %s" % expr_str(e))
    # file_size originates in the EOF PDU
    for f, b, j, s, ps in field_writes(fns, "self.file_size"):
        if f.name == "new":
            continue
        eb = ExprBuilder(ctx.prog, f, user_stop=True)
        e = eb.rvalue(s["rv"]) if j >= 0 else ("other",)
        txt = expr_str(e)
        meof = re.search(r"\{(\w+)\.file_size\}$", txt)
        if meof and eb.var_defs(meof.group(1)) and all("@EoF.0" in expr_str(x) for x in eb.var_defs(meof.group(1))):
            yield ok("C01-K", "%s:self.file_size<-eof" % f.name, at(f, s["span"]["line"]), txt)
        else:
            yield bad("C01-K", "%s:self.file_size<-other" % f.name, at(f, s["span"]["line"]), "self.file_size written from %s, not from the EOF PDU" % txt)


# ---------------------------------------------------------------- C01-R
@rule("C01", "C01-R", 1, "what is recorded as received is what was written: same offset and same bytes go to seek/write and to the segment list, and the segment is recorded (and counted) only after it was written", also=("C09", "C20"))
def c01_r(ctx):
    f = ctx.one("C01-R", "RecvTransaction::store_file_data")
    eb = ExprBuilder(ctx.prog, f, user_stop=True)
    seek = write = merge = None
    for b, t in f.all_calls():
        d, r, _ = ctx.prog.callee_of(t)
        nm = r or d or ""
        if nm.endswith("Seek>::seek") or nm.endswith("Seek::seek"):
            seek = (b, t, eb.call(b, t))
        elif nm.endswith("Write::write_all") or nm.endswith("Write>::write_all"):
            write = (b, t, eb.call(b, t))
        elif nm.endswith("Segments::merge"):
            merge = (b, t, eb.call(b, t))
    if not (seek and write and merge):
        raise Anchor("C01-R", "seek/write_all/Segments::merge in store_file_data")
    s_arg = seek[2][3][1]
    off = None
    if s_arg[0] == "agg" and s_arg[3] == "Start" and s_arg[5]:
        off = s_arg[5][0]
    w_places = places_in(write[2][3][1])
    m_arg = merge[2][3][1]
    problems = []
    if off is None or off[0] != "place":
        problems.append("seek target is not SeekFrom::Start(<offset variable>): %s" % expr_str(s_arg))
    data = w_places[0] if len(w_places) == 1 else None
    if data is None:
        problems.append("write_all source is not a single buffer: %s" % expr_str(write[2][3][1]))
    if not (m_arg[0] == "agg" and m_arg[1] == "tuple" and len(m_arg[5]) == 2):
        problems.append("merge argument is not a (start, end) tuple: %s" % expr_str(m_arg))
    elif off is not None and data is not None:
        start, end = m_arg[5]
        if expr_str(start) != expr_str(off):
            problems.append("merge start %s differs from the seek offset %s" % (expr_str(start), expr_str(off)))
        es = expr_str(end)
        want1 = "(AddWithOverflow(%s, (Vec::len(&%s) as u64))).0" % (expr_str(off), data)
        want2 = "Add(%s, (Vec::len(&%s) as u64))" % (expr_str(off), data)
        if es not in (want1, want2):
            # the length may have been given a name: `let length = data.len(); .. offset + length as u64`
            es2 = es
            for vn in set(re.findall(r"\b[a-z_]\w*\b", es)):
                ds = [sstr(x) for x in eb.var_defs(vn)] if vn not in (expr_str(off), data) else []
                if len(ds) == 1 and ds[0] in ("Vec::len(%s)" % data, "slice::len(%s)" % data):
                    es2 = re.sub(r"\(%s as u64\)" % re.escape(vn), "(Vec::len(&%s) as u64)" % data, es2)
            if es2 not in (want1, want2):
                problems.append("merge end %s is not offset + len(written buffer)" % es)
    # offset and data come from the same PDU value
    if off is not None and data is not None and not problems:
        od = [expr_str(x) for x in eb.var_defs(off[1])]
        dd = [expr_str(x) for x in eb.var_defs(data)]
        full = ExprBuilder(ctx.prog, f)
        o_full = expr_str(full.operand({"k": "copy", "place": _var_place(f, off[1])}))
        d_full = expr_str(full.operand({"k": "copy", "place": _var_place(f, data)}))
        oe = simp(full.operand({"k": "copy", "place": _var_place(f, off[1])}))
        de = simp(full.operand({"k": "copy", "place": _var_place(f, data)}))

        def alts(x):
            xs = x[2] if x[0] == "phi" else (x,)
            return [a[1] if a[0] == "place" else None for a in xs]

        oa, da = alts(oe), alts(de)
        paired = len(oa) == len(da) and all(a and d and a.endswith(".offset") and d.endswith(".file_data") and a[: -len(".offset")] == d[: -len(".file_data")] for a, d in zip(oa, da))
        old_form = "data.offset" in o_full and "data.file_data" in d_full and o_full.rsplit(").", 1)[0] == d_full.rsplit(").", 1)[0]
        if not (paired or old_form):
            problems.append("offset (%s) and data (%s) are not the offset/file_data fields of the same PDU" % (o_full[:120], d_full[:120]))
    # order and unconditionality: the seek dominates the write, the write dominates the record
    from core import dominators

    dom = dominators(f)
    if seek[0] not in dom.get(write[0], ()):
        problems.append("a path reaches write_all without passing seek(SeekFrom::Start(offset)): the bytes land wherever the cursor was left")
    if write[0] not in dom.get(merge[0], ()):
        problems.append("a path records the segment in the held-range list without having written its bytes to the staging file")
    if seek[0] not in dom.get(merge[0], ()):
        problems.append("a path records the segment without having positioned the staging file at its offset")
    if problems:
        for i, p in enumerate(problems):
            yield bad("C01-R", "store_file_data:%d" % i, at(f, merge[1]["span"]["line"]), p)
    else:
        yield ok("C01-R", "store_file_data", at(f, merge[1]["span"]["line"]), {"seek": expr_str(s_arg), "write": expr_str(write[2][3][1]), "merge": expr_str(m_arg)})


def _var_place(f, name):
    for vn, l, proj in f.var_places:
        if vn == name and not proj:
            return {"local": l, "proj": [], "ty": f.locals[l]["ty"]}
    return None


# ---------------------------------------------------------------- C10-K2 / K3
@rule("C10", "C10-K2", 2, "no call path from cancel reaches the publish sink or any mutating filestore operation")
def c10_k2(ctx):
    roots = ctx.prog.find("RecvTransaction::cancel") + ctx.prog.find("RecvTransaction::_cancel")
    if len(roots) != 2:
        raise Anchor("C10-K2", "RecvTransaction::{cancel,_cancel}")
    for r in roots:
        seen = ctx.prog.reach([r])
        hit = [n for n in seen if n.endswith("RecvTransaction::finalize_file") or n.endswith("RecvTransaction::finalize_receive")]
        # direct FileStore calls in the reachable set
        bad_calls = []
        for n in seen:
            g = ctx.prog.by_norm[n]
            for b, t in g.all_calls():
                d, rr, _ = ctx.prog.callee_of(t)
                nm = d or ""
                if nm.endswith("FileStore::open") or nm.endswith("FileStore::process_request") or any(nm.endswith("FileStore::" + m) for m in MUTATING_FS):
                    bad_calls.append("%s@L%d" % (short(n), t["span"]["line"]))
        key = "%s:reach" % r.name
        if hit or bad_calls:
            chain = " -> ".join(short(x) for x in ctx.prog.chain(seen, hit[0])) if hit else ""
            yield bad("C10-K2", key, at(r), "publish sink reachable from %s: %s %s" % (r.name, chain, bad_calls))
        else:
            yield ok("C10-K2", key, at(r), {"reachable_functions": len(seen)})


@rule("C10", "C10-K3", 2, "an EOF carrying an error condition is routed to the cancel routine and never to finalisation")
def c10_k3(ctx):
    f = ctx.one("C10-K3", "RecvTransaction::process_pdu")

    def track(key):
        return key[0] == "val" and key[1] in ("self.config.transmission_mode",)

    fl = Flow(ctx.prog, ctx.mods, f, track)
    n = 0
    for f2, b, j, s, ps in field_writes([f], "self.condition"):
        if j < 0:
            continue
        eb = ExprBuilder(ctx.prog, f, user_stop=True)
        mc = re.match(r"^(\w+)\.condition$", expr_str(eb.rvalue(s["rv"])))
        if not mc or not eb.var_defs(mc.group(1)) or not all("@EoF.0" in expr_str(x) for x in eb.var_defs(mc.group(1))):
            continue
        n += 1
        mode = [world_str(w) for w in fl.at_stmt(b, j)]
        key = "process_pdu:eof-arm-%s" % ("unack" if any("Unacknowledged" in m for m in mode) else "ack")
        res = _error_side(ctx, f, fl, b, src="%s.condition" % mc.group(1))
        if res is None:
            yield bad("C10-K3", key, at(f, s["span"]["line"]), "no `condition == NoError` test follows the assignment of the EOF condition")
            continue
        line, fin_sites, uncancelled = res
        if fin_sites:
            yield bad("C10-K3", key, at(f, line), "finalisation (L%s) is reachable on the condition != NoError side of the EOF arm" % fin_sites)
        elif uncancelled:
            yield bad("C10-K3", key, at(f, line), "the condition != NoError side of the EOF arm has a path to return that does not call _cancel")
        else:
            yield ok("C10-K3", key, at(f, line), {"mode": mode, "error_side": "every path calls _cancel; no finalisation reachable"})
    if n == 0:
        raise Anchor("C10-K3", "`self.condition = eof.condition` in process_pdu")


def _error_side(ctx, f, fl, start, src=None):
    """From block `start`, find the first switch testing self.condition against NoError.
    Returns (line, finalisation sites reachable on the != NoError side, whether some
    path on that side returns without calling _cancel)."""
    seen = set()
    work = [start]
    while work:
        b = work.pop(0)
        if b in seen:
            continue
        seen.add(b)
        t = f.blocks[b]["term"]
        if t["k"] == "switch":
            txt = expr_str(fl.eb.operand(t["discr"]))
            # the test may be made on the field just assigned or on the value it was assigned from
            if ("self.condition" in txt or (src is not None and src in txt)) and "NoError" in txt and ("eq(" in txt or "ne(" in txt):
                is_eq = "eq(" in txt
                tgt_false = t["targets"][0][1]  # value 0 = test false
                tgt_true = t["otherwise"]
                err_start = tgt_false if is_eq else tgt_true
                cancel_blocks = set()
                fin = []
                for b2 in f.reachable(err_start):
                    t2 = f.blocks[b2]["term"]
                    if t2["k"] != "call":
                        continue
                    d, r, _ = ctx.prog.callee_of(t2)
                    nm = r or d or ""
                    if nm.endswith("RecvTransaction::_cancel"):
                        cancel_blocks.add(b2)
                    if nm.endswith("RecvTransaction::finalize_receive") or nm.endswith("RecvTransaction::check_finished") or nm.endswith("RecvTransaction::finalize_file"):
                        fin.append(t2["span"]["line"])
                r2 = f.reachable(err_start, avoid=cancel_blocks)
                unc = any(f.blocks[x]["term"]["k"] == "return" for x in r2)
                return t["span"]["line"], fin, unc
        for s, _ in f.succs(b):
            work.append(s)
    return None


def _dominated_by(f, a, b):
    """Is block b reachable from entry only through block a?"""
    if a == b:
        return True
    return b not in f.reachable(0, avoid=[a])


def _error_side_calls_cancel(ctx, f, fl, start):
    """From block `start`, find the switch on condition==NoError; on its false edge every
    path to return passes a call of `_cancel`."""
    reach = sorted(f.reachable(start))
    for b in reach:
        t = f.blocks[b]["term"]
        if t["k"] != "switch":
            continue
        e = fl.eb.operand(t["discr"])
        txt = expr_str(e)
        if "self.condition" in txt and "NoError" in txt and ("eq(" in txt or "ne(" in txt):
            # the edge on which condition != NoError
            is_eq = "eq(" in txt
            tgt_false = t["targets"][0][1]  # value 0
            tgt_true = t["otherwise"]
            err_start = tgt_false if is_eq else tgt_true
            cancel_blocks = set()
            for b2, t2 in f.all_calls():
                d, r, _ = ctx.prog.callee_of(t2)
                if (r or d or "").endswith("RecvTransaction::_cancel"):
                    cancel_blocks.add(b2)
            r2 = f.reachable(err_start, avoid=cancel_blocks)
            return not any(f.blocks[x]["term"]["k"] == "return" for x in r2)
    return False


# ================================================================ C19
def _ret_sites(f):
    """(block, idx|-1, rvalue-or-term) of every definition of the return place."""
    for d in f.defs(0):
        if d[0] == "assign":
            yield d[1], d[2], d[3]
        elif d[0] == "call":
            yield d[1], -1, d[2]


@rule("C19", "C19-A", 4, "while Suspended the send branch of both transaction loops is disabled: has_pdu_to_send cannot return true, and send_pdu sits behind that precondition")
def c19_a(ctx):
    def track(key):
        return key[0] == "val" and key[1] == "self.state"

    for adt, nm in ((RECV, "RecvTransaction"), (SEND, "SendTransaction")):
        f = ctx.one("C19-A", nm + "::has_pdu_to_send")
        fl = Flow(ctx.prog, ctx.mods, f, track)
        badw = None
        n = 0
        for b, j, rv in _ret_sites(f):
            if j >= 0 and rv["k"] == "use" and rv["op"]["k"] == "const" and rv["op"].get("val") == 0:
                continue  # returns false
            n += 1
            worlds = fl.at_stmt(b, j) if j >= 0 else fl.at_term(b)
            good, w = all_worlds_satisfy(worlds, lambda dw: val_not(dw, "self.state", {"Suspended"}))
            if not good:
                # the returned value may itself be the test (`pending && self.state != Suspended`): a true result
                # then implies state != Suspended
                ebr = ExprBuilder(ctx.prog, f)
                e = ebr.rvalue(rv) if j >= 0 else ebr.call(b, rv)
                cs = fl.cond._cons(f, e, BOOL_TRUE, 0)
                implied = any(k == ("val", "self.state") and ((not pos and "Suspended" in vals) or (pos and "Suspended" not in vals and vals)) for k, (pos, vals) in cs)
                if not implied:
                    badw = (b, w)
        key = "%s::has_pdu_to_send" % nm
        if badw:
            yield bad("C19-A", key, at(f), "has_pdu_to_send can return a non-false value while state == Suspended (bb%d, state %s)" % (badw[0], world_str(badw[1])))
        else:
            yield ok("C19-A", key, at(f), "%d possibly-true return sites, all with state != Suspended" % n)
    # the select! arm that calls send_pdu is disabled by has_pdu_to_send()==false
    daemon = [f for f in ctx.prog.by_norm.values() if f.crate == "cfdp_daemon"]
    n = 0
    for f, b, t, d, r in call_sites(daemon, lambda d_, r_: (r_ or d_).endswith("Transaction::send_pdu"), ctx.prog):
        n += 1
        nm = short(r or d)
        eb = ExprBuilder(ctx.prog, f)
        e = eb.call(b, t)
        permit = expr_str(e[3][1])
        key = "%s:%s" % (short(f.root or f.norm), nm)
        import re as _re

        m = _re.search(r"output@_(\d+)\.0", permit)
        if not m:
            yield undecided("C19-A", key, at(f, t["span"]["line"]), "send_pdu's permit is not the output of a select! branch: %s" % permit)
            continue
        k = int(m.group(1))
        # find the precondition switch: has_pdu_to_send(&transaction) == false -> disabled |= 1 << k
        found = False
        for b2 in f.live_blocks():
            t2 = f.blocks[b2]["term"]
            if t2["k"] != "switch":
                continue
            ce = eb.operand(t2["discr"])
            if ce[0] == "call" and (callee_name(ce) or "").endswith("Transaction::has_pdu_to_send"):
                false_tgt = [tb for v, tb in t2["targets"] if v == 0]
                if not false_tgt:
                    continue
                # blocks reachable from the false edge before rejoining the true edge
                true_reach = f.reachable(t2["otherwise"], avoid=[b2])
                only_false = [x for x in f.reachable(false_tgt[0], avoid=[b2]) if x not in true_reach]
                for x in only_false:
                    for s in f.blocks[x]["stmts"]:
                        if s["k"] == "assign" and f.place_str(s["place"]) == "disabled":
                            txt = expr_str(eb.rvalue(s["rv"]))
                            if txt == "BitOr(disabled, Shl(const(1), const(%d)))" % k:
                                found = True
        if found:
            yield ok("C19-A", key, at(f, t["span"]["line"]), "permit = select branch %d; branch %d is disabled when has_pdu_to_send() is false" % (k, k))
        else:
            yield bad("C19-A", key, at(f, t["span"]["line"]), "send_pdu is called on select branch %d, which is not disabled by has_pdu_to_send()==false" % k)
    if n == 0:
        raise Anchor("C19-A", "call sites of send_pdu in the transaction loops")


ARMING = ("Timer::restart_inactivity", "Timer::reset_inactivity", "Timer::restart_ack", "Timer::reset_ack", "Timer::restart_nak", "Timer::reset_nak", "Counter::start", "Counter::restart", "Counter::reset")
SUSPENDED_ENTRIES = ("process_pdu", "cancel", "send_report", "shutdown", "abandon", "prepare_prompt")


@rule("C19", "C19-B", 2, "no entry point that can run while suspended (PDU reception, cancel, report) arms a timer unless state != Suspended")
def c19_b(ctx):
    from df import Inter

    def track(key):
        return key[0] == "val" and key[1] == "self.state"

    for adt, nm in ((RECV, "RecvTransaction"), (SEND, "SendTransaction")):
        fns = impl_fns(ctx, adt)
        entries = [f for f in fns if f.name in SUSPENDED_ENTRIES]
        if not entries:
            raise Anchor("C19-B", "entry points of " + nm)
        it = Inter(ctx.prog, ctx.mods, fns, entries, track)
        counts = {}
        for f in fns:
            fl = it.flows.get(f.norm)
            if fl is None:
                continue
            for b, t in f.all_calls():
                d, r, _ = ctx.prog.callee_of(t)
                cal = r or d or ""
                hit = [a for a in ARMING if cal.endswith(a)]
                if not hit:
                    continue
                base = "%s::%s->%s" % (nm, f.name, hit[0])
                counts[base] = counts.get(base, 0) + 1
                key = base + ("#%d" % counts[base] if counts[base] > 1 else "")
                worlds = fl.at_term(b)
                good, w = all_worlds_satisfy(worlds, lambda dw: val_not(dw, "self.state", {"Suspended"}))
                chain = " -> ".join(short(x) for x, _ in it.chain(f.norm))
                if good:
                    yield ok("C19-B", key, at(f, t["span"]["line"]), {"chain": chain})
                else:
                    yield bad("C19-B", key, at(f, t["span"]["line"]), "timer armed (%s) on a path that can run while Suspended: %s; state %s" % (hit[0], chain, world_str(w)))


# ================================================================ C18
def _mode_ack(dw):
    return val_in(dw, "self.config.transmission_mode", {"Acknowledged"})


W_DERIVED_PLACES = ("self.naks", "self.prompt", "self.timer.nak", "self.delayed_nack_timers", "idx", "prompt")


_DELAYED_VARS = {}


def _counts_delayed_timers(fn, var):
    """`var` is computed from self.delayed_nack_timers (the number of expired delayed-NAK
    timers): every definition's origin mentions that field."""
    if fn is None:
        return False
    key = (fn.norm, var)
    if key not in _DELAYED_VARS:
        from common import backslice

        calls, places, nodes = backslice(fn.prog, fn, ("place", var, "usize"))
        res = any(p == "self.delayed_nack_timers" or p.startswith("self.delayed_nack_timers") for p in places)
        if not res:
            res = _counts_under_length_test(fn, var)
        _DELAYED_VARS[key] = res
    return _DELAYED_VARS[key]


def _counts_under_length_test(fn, var):
    """`let mut i = 0; while i < self.delayed_nack_timers.len() && .. { i += 1 }`: every definition of `var` is the
    constant 0 or `var + 1` made under `var < len(self.delayed_nack_timers)` - so var > 0 implies a non-empty list."""
    ls = [l for vn, l, pj in fn.var_places if vn == var and not pj]
    if len(ls) != 1:
        return False
    l = ls[0]
    eb = ExprBuilder(fn.prog, fn, user_stop=True)
    dom = dominators(fn)
    guards = set()
    for b in fn.live_blocks():
        t = fn.blocks[b]["term"]
        if t["k"] == "switch":
            txt = expr_str(eb.operand(t["discr"]))
            if re.match(r"^Lt\(%s, Vec::len\(&?self\.delayed_nack_timers\)\)$" % re.escape(var), txt):
                guards.add(t["otherwise"])  # the edge on which the comparison is true
    incs = 0
    for d in fn.defs(l):
        if d[0] != "assign":
            return False
        e = eb.rvalue(d[3])
        txt = expr_str(e)
        if txt == "const(0)":
            continue
        if re.match(r"^\(AddWithOverflow\(%s, const\(1\)\)\)\.0$" % re.escape(var), txt) or txt == "Add(%s, const(1))" % var:
            if not any(g in dom.get(d[1], ()) for g in guards):
                return False
            incs += 1
            continue
        return False
    return incs > 0


def _w_derived(dw, fn=None):
    """The world holds a fact that can only be true if an (inductively guarded)
    enabling write ran earlier: NAK list non-empty, prompt present, NAK timer expired,
    delayed-NAK timers present."""
    for k, (pos, s) in dw.items():
        if k[0] == "val" and k[1] == "self.prompt" and pos and s == frozenset(["Some"]):
            return "prompt present"
        if k[0] == "dexpr" and k[1] == "Option::take(&mut self.prompt)" and pos and s == frozenset(["Some"]):
            return "prompt taken"
        if k == ("val", "<enabled>"):
            return "caller held an enabled-state guard"
        if k[0] == "val" and re.match(r"^[a-z_][a-z0-9_]*$", k[1]) and ((not pos and 0 in s) or (pos and s and 0 not in s and all(isinstance(v_, int) for v_ in s))) and fn is not None and any(vn == k[1] and not pj and fn.locals[l_]["ty"] == "usize" for vn, l_, pj in fn.var_places) and _counts_delayed_timers(fn, k[1]):
            return "expired delayed-NAK timers counted"
        if k[0] == "call" and k[1].endswith("VecDeque::is_empty") and any("self.naks" in a for a in k[2]) and pos and s == frozenset([0]):
            return "NAK list non-empty"
        if k[0] == "call" and k[1].endswith("Counter::timeout_occurred") and any("self.timer.nak" in a for a in k[2]) and pos and s == frozenset([1]):
            return "NAK timer expired"
        if k[0] == "expr" and k[1].endswith(", const(0))") and pos and ((k[1].startswith(("Gt(", "Ne(")) and s == frozenset([1])) or (k[1].startswith("Eq(") and s == frozenset([0]))):
            m = re.match(r"^(?:Gt|Ne|Eq)\((\w+), const\(0\)\)$", k[1])
            if any(str(p_).startswith("self.delayed_nack_timers") for p_ in (k[2] if len(k) > 2 else ())) or "self.delayed_nack_timers" in k[1] or (m and _counts_delayed_timers(fn, m.group(1))):
                return "expired delayed-NAK timers counted"
    return None


_DELAYED_COUNT_NAMES = set()


def _track_u1(key):
    if key[0] == "val":
        # (a plain local: `idx != 0` is recorded as a fact on the value of idx)
        return key[1] in ("self.config.transmission_mode", "self.prompt", "self.recv_state") or key[1].startswith("prompt.") or key[1] in _DELAYED_COUNT_NAMES
    if key[0] == "call":
        return key[1].endswith("VecDeque::is_empty") or key[1].endswith("Counter::timeout_occurred")
    if key[0] == "expr":
        return key[1].startswith(("Gt(", "Ne(", "Eq(")) and key[1].endswith(", const(0))") and (re.match(r"^(Gt|Ne|Eq)\(\w+, const\(0\)\)$", key[1]) is not None or "self.delayed_nack_timers" in key[1] or any(str(p_).startswith("self.delayed_nack_timers") for p_ in (key[2] if len(key) > 2 else ())))
    if key[0] == "dexpr":
        return key[1] == "Option::take(&mut self.prompt)"
    return False


def _carry_enabled(dw, fn=None):
    """At a call boundary: remember that the caller was already under an
    enabled-state guard (local facts do not survive the projection to the callee)."""
    if _w_derived(dw, fn):
        return [(("val", "<enabled>"), (True, frozenset([1])))]
    return []


def _recv_enabling_sites(ctx, fns):
    """(fn, block, idx, line, what) of writes that make an ACK/NAK/keep-alive sendable."""
    for f in fns:
        for b in f.live_blocks():
            blk = f.blocks[b]
            for j, s in enumerate(blk["stmts"]):
                if s["k"] == "assign":
                    ps = f.place_str(s["place"])
                    if ps in ("self.naks", "self.prompt", "self.ack") and f.name != "new":
                        e = ExprBuilder(ctx.prog, f).rvalue(s["rv"])
                        if e[0] == "agg" and e[3] == "None":
                            continue
                        yield f, b, j, s["span"]["line"], "write " + ps
            t = blk["term"]
            if t["k"] != "call":
                continue
            d, r, _ = ctx.prog.callee_of(t)
            cal = r or d or ""
            e = ExprBuilder(ctx.prog, f, inline=False).call(b, t)
            a0 = expr_str(e[3][0]) if e[3] else ""
            if cal.endswith("RecvTransaction::prepare_ack_eof"):
                yield f, b, -1, t["span"]["line"], "prepare_ack_eof"
            elif cal.endswith("Timer::restart_nak") or cal.endswith("Timer::reset_nak"):
                yield f, b, -1, t["span"]["line"], cal.split("::")[-1]
            elif a0 in ("&mut self.naks", "&mut self.delayed_nack_timers", "&mut self.prompt", "&mut self.ack"):
                last = cal.split("::")[-1]
                if last in ("push_back", "push_front", "push", "extend", "insert", "replace", "append", "get_or_insert", "get_or_insert_with"):
                    yield f, b, -1, t["span"]["line"], "%s.%s" % (a0[5:], last)
                elif last in ("drain", "take", "pop_front", "pop_back", "pop", "clear", "iter_mut", "as_mut", "retain", "remove", "truncate", "first", "len", "is_empty", "iter", "deref", "deref_mut", "index_mut", "get_mut"):
                    continue
                else:
                    yield f, b, -1, t["span"]["line"], "%s.%s (unclassified mutator)" % (a0[5:], last)


@rule("C18", "C18-U1", 8, "in unacknowledged mode nothing that makes an ACK, NAK or keep-alive sendable is written (guarded by the mode or, inductively, by already-enabled state)")
def c18_u1(ctx):
    fns = impl_fns(ctx, RECV)
    # usize locals computed from the list of delayed checks (`idx`: how many have expired)
    _DELAYED_COUNT_NAMES.clear()
    for g in fns:
        for vn, l_, pj in g.var_places:
            if not pj and l_ > g.arg_count and g.locals[l_]["ty"] == "usize" and re.match(r"^[a-z_][a-z0-9_]*$", vn) and _counts_delayed_timers(g, vn):
                _DELAYED_COUNT_NAMES.add(vn)
    it = inter(ctx, RECV, lambda k: _track_u1(k) or k == ("val", "<enabled>"), "u1", carry=_carry_enabled, user_stop=True)
    counts = {}
    for f, b, j, line, what in _recv_enabling_sites(ctx, fns):
        fl = it.flows.get(f.norm)
        base = "%s:%s" % (f.name, what)
        counts[base] = counts.get(base, 0) + 1
        key = base + ("#%d" % counts[base] if counts[base] > 1 else "")
        if fl is None:
            yield ok("C18-U1", key, at(f, line), "unreachable from entry points", nontrivial=False)
            continue
        worlds = fl.at_stmt(b, j) if j >= 0 else fl.at_term(b)
        reasons = []
        good = True
        wbad = None
        for w in worlds:
            dw = dict(w)
            if _mode_ack(dw):
                reasons.append("mode==Acknowledged")
            else:
                r = _w_derived(dw, f)
                if r:
                    reasons.append(r)
                else:
                    good = False
                    wbad = w
        if good and worlds:
            yield ok("C18-U1", key, at(f, line), {"guards": sorted(set(reasons))})
        else:
            chain = " -> ".join(short(x) for x, _ in it.chain(f.norm))
            yield bad("C18-U1", key, at(f, line), "%s reachable in unacknowledged mode without a mode test or enabled-state guard: chain %s; state %s" % (what, chain, world_str(wbad) if wbad is not None else "?"))


@rule("C18", "C18-U2", 1, "the sender does not shut down on sending EOF in unacknowledged mode when closure was requested")
def c18_u2(ctx):
    f = ctx.one("C18-U2", "SendTransaction::send_pdu")

    def track(key):
        return key[0] == "val" and key[1] in ("self.config.transmission_mode", "self.metadata.closure_requested", "self.send_state")

    fl = Flow(ctx.prog, ctx.mods, f, track)
    n = 0
    for f2, b, t, d, r in call_sites([f], ends("SendTransaction::shutdown"), ctx.prog):
        n += 1
        worlds = fl.at_term(b)
        good, w = all_worlds_satisfy(worlds, lambda dw: val_in(dw, "self.config.transmission_mode", {"Acknowledged"}) or val_in(dw, "self.metadata.closure_requested", {0}))
        key = "send_pdu->shutdown" + ("#%d" % n if n > 1 else "")
        if good:
            yield ok("C18-U2", key, at(f, t["span"]["line"]), {"worlds": [world_str(x) for x in worlds]})
        else:
            yield bad("C18-U2", key, at(f, t["span"]["line"]), "sender shuts down right after sending EOF although closure may have been requested (the receiver's Finished is never heard): state %s" % world_str(w))
    if n == 0:
        # no shutdown in send_pdu at all is fine (ends elsewhere); keep the instance count honest
        yield ok("C18-U2", "send_pdu:no-shutdown", at(f), "send_pdu calls no shutdown")


@rule("C18", "C18-U4", 1, "the sender queues retransmissions only in acknowledged mode")
def c18_u4(ctx):
    fns = impl_fns(ctx, SEND)

    def track(key):
        return key[0] == "val" and key[1] in ("self.config.transmission_mode",)

    it = inter(ctx, SEND, track, "mode")
    n = 0
    for f in fns:
        fl = it.flows.get(f.norm)
        for b, t in f.all_calls():
            d, r, _ = ctx.prog.callee_of(t)
            cal = r or d or ""
            e = ExprBuilder(ctx.prog, f, inline=False).call(b, t)
            a0 = expr_str(e[3][0]) if e[3] else ""
            if a0 != "&mut self.naks":
                continue
            last = cal.split("::")[-1]
            if last in ("pop_front", "pop_back", "drain", "clear", "retain", "len", "is_empty", "iter"):
                continue
            n += 1
            key = "%s:naks.%s" % (f.name, last)
            worlds = fl.at_term(b) if fl else frozenset()
            good, w = all_worlds_satisfy(worlds, _mode_ack)
            if good and worlds:
                yield ok("C18-U4", key, at(f, t["span"]["line"]), "under transmission_mode == Acknowledged")
            else:
                yield bad("C18-U4", key, at(f, t["span"]["line"]), "sender NAK queue written outside the acknowledged arm: %s" % (world_str(w) if w is not None else "unreachable"))
        for j_f, b, j, s, ps in field_writes([f], "self.naks"):
            if f.name == "new":
                continue
            n += 1
            worlds = fl.at_stmt(b, j) if (fl and j >= 0) else frozenset()
            good, w = all_worlds_satisfy(worlds, _mode_ack)
            key = "%s:naks=" % f.name
            if good and worlds:
                yield ok("C18-U4", key, at(f, s["span"]["line"]), "under transmission_mode == Acknowledged")
            else:
                yield bad("C18-U4", key, at(f, s["span"]["line"]), "sender NAK queue assigned outside the acknowledged arm")
    if n == 0:
        raise Anchor("C18-U4", "writers of SendTransaction.naks")


# ================================================================ C13-Q2 / Q3
@rule("C13", "C13-Q2", 1, "requests are processed in list order inside finalisation, nothing is processed after a response that is_fail(), skipped requests are reported not-performed only after a failure, one response per request")
def c13_q2(ctx):
    """Shape-independent: the rule follows the iterator over meta.filestore_requests, the
    element each next() yields, the is_fail() of each process_request result and the branches on
    it; it does not depend on variable names or on whether a flag or a break stops processing."""
    f = ctx.one("C13-Q2", "RecvTransaction::finalize_receive")
    eb = ExprBuilder(ctx.prog, f, user_stop=True)
    problems = []
    pr = list(call_sites([f], ends("FileStore::process_request"), ctx.prog))
    if len(pr) != 1:
        raise Anchor("C13-Q2", "single process_request call in finalize_receive")
    _, pb, pt, _, _ = pr[0]

    def var_of(e):
        e = simp(e)
        return e[1] if e[0] == "place" and re.match(r"^\w+$", e[1]) else None

    # ---- the request iterator family: slice::iter(&meta.filestore_requests) / into_iter(&meta.filestore_requests),
    # possibly moved, re-borrowed (by_ref, &mut) or passed through into_iter; any other adaptor leaves the family
    def origin(e, depth=0):
        e = simp(e)
        if depth > 8:
            return "?"
        v = var_of(e)
        if v is not None:
            ds = eb.var_defs(v)
            outs = {origin(d, depth + 1) for d in ds}
            return outs.pop() if len(outs) == 1 else "?"
        if e[0] == "call":
            last = (callee_name(e) or "").split("::")[-1]
            if last in ("into_iter", "by_ref") and len(e[3]) == 1:
                return origin(e[3][0], depth + 1)
            if last == "iter" and len(e[3]) == 1 and (callee_name(e) or "").endswith("slice::iter"):
                return origin(e[3][0], depth + 1)
            return "?"
        if e[0] == "place":
            m = re.match(r"^(\w+)\.filestore_requests$", e[1])
            if m:
                md = [sstr(x) for x in eb.var_defs(m.group(1))]
                if md and all(x == "self.metadata@Some.0" for x in md):
                    return "self.metadata.filestore_requests"
            if e[1] == "self.metadata@Some.0.filestore_requests":
                return "self.metadata.filestore_requests"
        return "?"

    # next() sites on the family: block -> (Some-edge target, None-edge targets, element variable names)
    nexts = {}
    for b, t in f.all_calls():
        e = eb.call(b, t)
        if (callee_name(e) or "").split("::")[-1] == "next" and len(e[3]) == 1 and origin(e[3][0]) == "self.metadata.filestore_requests":
            nexts[b] = {"line": t["span"]["line"], "some": None, "none": []}
    if not nexts:
        yield bad("C13-Q2", "finalize_receive:loop:0", at(f, pt["span"]["line"]), "the request given to process_request (%s) is not yielded by a plain in-order iterator over meta.filestore_requests (an adaptor, another list or an index is used)" % sstr(eb.call(pb, pt)[3][1])[:120])
        return
    for b in f.live_blocks():
        t = f.blocks[b]["term"]
        if t["k"] != "switch":
            continue
        d = simp(eb.operand(t["discr"]))
        if d[0] == "discr" and d[1][0] == "call":
            loc = d[1][4]
            nb = loc[0] if isinstance(loc, tuple) else None
            if nb in nexts:
                for v, tb in t["targets"]:
                    if v == 1:
                        nexts[nb]["some"] = tb
                    else:
                        nexts[nb]["none"].append((b, tb))
                nexts[nb]["switch"] = b
    if any(n["some"] is None for n in nexts.values()):
        raise Anchor("C13-Q2", "Some/None branch of the iterator's next()")

    def element_of(e):
        """The next() site a request expression is the element of, else None."""
        e = simp(e)
        v = var_of(e)
        if v is not None:
            ds = eb.var_defs(v)
            outs = {element_of(d) for d in ds}
            return outs.pop() if len(outs) == 1 else None
        if e[0] == "proj" and e[2].startswith("@Some.0") and e[1][0] == "call":
            loc = e[1][4]
            nb = loc[0] if isinstance(loc, tuple) else None
            return nb if nb in nexts else None
        return None

    p_elem = element_of(eb.call(pb, pt)[3][1])
    if p_elem is None:
        problems.append("process_request argument %s is not the element yielded by an in-order iterator over meta.filestore_requests" % sstr(eb.call(pb, pt)[3][1]))
    dom = dominators(f)

    # ---- is_fail-derived branches: a switch on is_fail(result of the process_request call) or on a
    # flag whose only definitions are `false` outside the loop and that is_fail() after the call
    def is_fail_of_p(e):
        e = simp(e)
        if e[0] != "call" or (callee_name(e) or "").split("::")[-1] != "is_fail" or not e[3]:
            return False
        a = simp(e[3][0])
        if a[0] != "place":
            return False
        m = re.match(r"^(\w+)\.action_and_status$", a[1])
        if not m:
            return False
        ds = [simp(x) for x in eb.var_defs(m.group(1))]
        return bool(ds) and all(x[0] == "call" and isinstance(x[4], tuple) and x[4][0] == pb for x in ds)

    after_p = f.reachable(pt["target"])

    def flag_ok(name):
        inits = 0
        for vn, l, proj in f.var_places:
            if vn != name or proj:
                continue
            for d in f.defs(l):
                if d[0] == "assign":
                    e = simp(eb.rvalue(d[3]))
                    if e[0] == "const" and e[1] in (0, False) and d[1] not in after_p:
                        inits += 1
                        continue
                    if is_fail_of_p(e) and pb in dom.get(d[1], ()):
                        continue
                    return False
                elif d[0] == "call":
                    if is_fail_of_p(eb.call(d[1], d[2])) and pb in dom.get(d[1], ()):
                        continue
                    return False
                else:
                    return False
        return True

    fail_sw = {}
    for b in f.live_blocks():
        t = f.blocks[b]["term"]
        if t["k"] != "switch":
            continue
        d = simp(eb.operand(t["discr"]))
        v = var_of(d)
        if (v is not None and any(is_fail_of_p(x) for x in eb.var_defs(v)) and flag_ok(v)) or is_fail_of_p(d):
            ok_edges = [tb for val, tb in t["targets"] if val == 0]
            fail_edges = [tb for val, tb in t["targets"] if val != 0] + [t["otherwise"]]
            fail_sw[b] = (ok_edges, fail_edges)
    if not fail_sw:
        problems.append("no branch on is_fail() of the response just produced")

    def reach(starts, cut_edges, stop=()):
        seen = set()
        st = list(starts)
        while st:
            b = st.pop()
            if b in seen:
                continue
            seen.add(b)
            if b in stop:
                continue
            for s2, _lab in f.succs(b):
                if (b, s2) in cut_edges:
                    continue
                st.append(s2)
        return seen

    not_failed_edges = {(b, tb) for b, (oe, fe) in fail_sw.items() for tb in oe}
    failed_edges = {(b, tb) for b, (oe, fe) in fail_sw.items() for tb in fe}
    none_edges = {e for n in nexts.values() for e in n["none"]}
    # (b) nothing is processed after a failure: with the not-failed edges removed the call cannot be reached again
    if pb in reach([pt["target"]], not_failed_edges):
        problems.append("process_request can run again without a not-failed test of the previous response's is_fail()")
    # (c) not_performed only after a failure: with the failed edges and the iterator-exhausted edges removed it is unreachable
    np_sites = list(call_sites([f], ends("FileStoreResponse::not_performed"), ctx.prog))
    if not np_sites:
        problems.append("no not_performed response for skipped requests")
    live_nofail = reach([0], failed_edges | none_edges)
    np_elems = {}
    for _f, b, t, d, r in np_sites:
        if b in live_nofail:
            problems.append("a not_performed response at L%d can be produced although no earlier request failed" % t["span"]["line"])
        el = element_of(eb.call(b, t)[3][0])
        if el is None:
            problems.append("not_performed argument %s is not the element yielded by the request iterator" % sstr(eb.call(b, t)[3][0]))
        np_elems[b] = el
    # (d) one response per request: every push onto the response vector carries the response for the
    # element of the iteration it is in; every Some edge reaches a push before the next next()/the end
    fw = [(b, s["span"]["line"], simp(eb.rvalue(s["rv"]))) for _f, b, j, s, ps in field_writes([f], "self.filestore_response") if j >= 0]
    outv = {var_of(x[2]) for x in fw}
    if not fw or None in outv or len(outv) != 1:
        problems.append("self.filestore_response is not assigned one collected vector: %s" % [expr_str(x[2])[:60] for x in fw])
        outv = None
    else:
        outv = outv.pop()
        od = [sstr(x) for x in eb.var_defs(outv)]
        if not od or not all(re.match(r"^(Vec::new\(\)|Vec::with_capacity\(.*\))$", x) for x in od):
            problems.append("the response vector does not start empty: %s" % od)

    def response_elem(e, depth=0):
        """next() site whose element this response answers (process_request / not_performed of it)."""
        e = simp(e)
        v = var_of(e)
        if v is not None and depth < 4:
            outs = {response_elem(x, depth + 1) for x in eb.var_defs(v)}
            return outs.pop() if len(outs) == 1 else None
        if e[0] == "call":
            last = (callee_name(e) or "").split("::")[-1]
            if last == "process_request" and len(e[3]) == 2:
                return element_of(e[3][1])
            if last == "not_performed" and len(e[3]) == 1:
                return element_of(e[3][0])
        return None

    pushes = {}
    if outv:
        for b, t in f.all_calls():
            e = eb.call(b, t)
            last = (callee_name(e) or "").split("::")[-1]
            if not e[3] or sstr(e[3][0]) != outv or simp(e[3][0])[0] != "place":
                continue
            if last in ("len", "is_empty", "iter", "clone", "deref"):
                continue
            if last != "push":
                problems.append("the response vector is modified by %s at L%d" % (last, t["span"]["line"]))
                continue
            el = response_elem(e[3][1])
            if el is None:
                problems.append("the value pushed at L%d (%s) is not the response to the request of this iteration" % (t["span"]["line"], sstr(e[3][1])[:100]))
            pushes[b] = el
        if not pushes:
            problems.append("no response is pushed")
        nb_all = set(nexts)
        ends_ = {b for b, line, e in fw}
        for nb, n in nexts.items():
            mine = {b for b, el in pushes.items() if el == nb}
            # from the Some edge, reaching another next() or the final assignment without a push for this element
            r = reach([n["some"]], set(), stop=mine | _error_exit_blocks(ctx, f))
            r -= mine
            if (r & nb_all) or (r & ends_):
                problems.append("the request yielded at L%d can go without a response (a path reaches the next request or the end without a push)" % n["line"])
            # from after a push for this element, another push before the next next()
            for pbk in mine:
                r2 = reach([f.blocks[pbk]["term"]["target"]], set(), stop=nb_all)
                if r2 & set(pushes):
                    problems.append("two responses can be pushed for the request yielded at L%d" % n["line"])
    if problems:
        for i, p_ in enumerate(problems):
            yield bad("C13-Q2", "finalize_receive:loop:%d" % i, at(f, pt["span"]["line"]), p_)
    else:
        yield ok("C13-Q2", "finalize_receive:loop", at(f, pt["span"]["line"]), {"iterator": "meta.filestore_requests", "next_sites": sorted(n["line"] for n in nexts.values()), "is_fail_branches": sorted(fail_sw), "push_blocks": sorted(pushes)})


@rule("C13", "C13-Q3", 4, "the responses given to the receiving user, put in the Finished PDU and handed to the sending user have the same origin; outside the cancel routine the Finished PDU is built only right after finalisation", also=("C04",))
def c13_q3(ctx):
    rfns = impl_and_closures(ctx, RECV)
    sfns = impl_and_closures(ctx, SEND)
    # receiver: FinishedIndication.filestore_responses <- self.filestore_response (or empty on cancel)
    for f, b, j, s in agg_sites(rfns, "FinishedIndication"):
        eb = ExprBuilder(ctx.prog, f, user_stop=True)
        e = eb.rvalue(s["rv"])
        v = dict(zip(e[4], e[5])).get("filestore_responses")
        txt = expr_str(v) if v else "?"
        key = "%s:FinishedIndication.filestore_responses" % f.name
        if txt == "Clone>::clone(&self.filestore_response)":
            yield ok("C13-Q3", key, at(f, s["span"]["line"]), txt)
        elif f.name == "_cancel" and ("Vec::new()" in txt or "into_vec" in txt or "vec" in txt.lower()) and "self." not in txt:
            yield ok("C13-Q3", key, at(f, s["span"]["line"]), "cancel reports no responses: " + txt[:80])
        else:
            yield bad("C13-Q3", key, at(f, s["span"]["line"]), "receiver indication responses come from %s" % txt)
    for f, b, j, s in agg_sites(rfns, "Finished"):
        eb = ExprBuilder(ctx.prog, f, user_stop=True)
        e = eb.rvalue(s["rv"])
        if not e[2].endswith("::Finished") or e[3] != "Finished":
            continue
        v = dict(zip(e[4], e[5])).get("filestore_response")
        txt = expr_str(v) if v else "?"
        key = "%s:Finished.filestore_response" % f.name
        if txt == "Clone>::clone(&self.filestore_response)":
            yield ok("C13-Q3", key, at(f, s["span"]["line"]), txt)
        else:
            yield bad("C13-Q3", key, at(f, s["span"]["line"]), "Finished PDU responses come from %s" % txt)
    # prepare_finished after the assignment of self.filestore_response: in check_finished and the
    # unacknowledged arm prepare_finished is called after finalize_receive returned
    for f, b, t, d, r in call_sites(impl_fns(ctx, RECV), ends("RecvTransaction::prepare_finished"), ctx.prog):
        fin = [b2 for _f, b2, t2, d2, r2 in call_sites([f], ends("RecvTransaction::finalize_receive"), ctx.prog)]
        if not fin:
            continue
        key = "%s:prepare_finished-after-finalize" % f.name
        if all(b in f.reachable(f.blocks[x]["term"]["target"]) for x in fin) and not any(x in f.reachable(f.blocks[b]["term"]["target"]) for x in fin):
            yield ok("C13-Q3", key, at(f, t["span"]["line"]), "prepare_finished runs after finalize_receive assigned the responses")
        else:
            yield bad("C13-Q3", key, at(f, t["span"]["line"]), "prepare_finished can run before finalize_receive assigned the responses")
    # sender: indication responses <- the received Finished PDU's field
    for f, b, j, s in agg_sites(sfns, "FinishedIndication"):
        eb = ExprBuilder(ctx.prog, f, user_stop=True)
        e = eb.rvalue(s["rv"])
        v = dict(zip(e[4], e[5])).get("filestore_responses")
        txt = expr_str(v) if v else "?"
        key = "%s:FinishedIndication.filestore_responses" % f.name
        from common import bound_pdu_field
        mfin = bound_pdu_field(eb, v, "@Finished.0", "filestore_response") if v is not None and re.match(r"^[\w.]+$", txt) else None
        if mfin:
            yield ok("C13-Q3", key, at(f, s["span"]["line"]), txt)
        elif "self." not in txt and not re.search(r"\.filestore_response", txt) and re.search(r"(Vec::new\(\)|into_vec|box_assume_init_into_vec_unsafe|vec::from_elem)", txt):
            yield ok("C13-Q3", key, at(f, s["span"]["line"]), "an end without a Finished PDU (unacknowledged, no closure) reports an empty response list: " + txt[:80])
        else:
            yield bad("C13-Q3", key, at(f, s["span"]["line"]), "sender indication responses come from %s" % txt)


# ================================================================ C18-U5
def _closure_guard_form(ctx, f, e):
    """Classify a boolean expression that asks 'was closure requested?': returns
    ('ok', txt) when it is metadata.map(|m| m.closure_requested) with default false,
    ('bad', why) when it mentions closure_requested in another form, None otherwise."""
    from core import inline_helpers
    from common import simp, sstr

    e = simp(inline_helpers(ctx.prog, e))
    txt = expr_str(e)
    if "closure" not in txt and "metadata" not in txt:
        return None

    def closure_returns_flag(clo):
        if clo[0] != "agg" or clo[1] != "closure":
            return False
        c = ctx.prog.by_norm.get(clo[2])
        if c is None:
            return False
        ebc = ExprBuilder(ctx.prog, c)
        rets = [sstr(ebc._def_expr(d, 0, (0,))) for d in c.defs(0) if d[0] in ("assign", "call")]
        return len(rets) == 1 and rets[0].endswith(".closure_requested")

    if e[0] == "call":
        last = (callee_name(e) or "").split("::")[-1]
        if last == "unwrap_or" and len(e[3]) == 2:
            inner, dflt = simp(e[3][0]), simp(e[3][1])
            if inner[0] == "call" and (callee_name(inner) or "").split("::")[-1] == "map" and len(inner[3]) == 2 and expr_str(simp(inner[3][0])) == "self.metadata" and closure_returns_flag(inner[3][1]):
                if dflt[0] == "const" and dflt[1] in (0, False):
                    return ("ok", "metadata.map(closure_requested).unwrap_or(false)")
                return ("bad", "closure is assumed requested when no metadata is held (default %s)" % expr_str(dflt))
        if last in ("map_or", "is_some_and") and e[3] and expr_str(simp(e[3][0])) == "self.metadata":
            clo = e[3][-1]
            if closure_returns_flag(clo):
                if last == "is_some_and":
                    return ("ok", "metadata.is_some_and(closure_requested)")
                dflt = simp(e[3][1])
                if dflt[0] == "const" and dflt[1] in (0, False):
                    return ("ok", "metadata.map_or(false, closure_requested)")
                return ("bad", "closure is assumed requested when no metadata is held (default %s)" % expr_str(dflt))
    if re.match(r"^\(?(Option::as_ref\()?self\.metadata\)?\)?@Some\.0(\.\*)*\.closure_requested$", txt):
        # the flag of the metadata bound by `if let Some(m)` / `match .. { Some(m) => .. }`: the Some
        # projection exists only on the path where metadata is held
        return ("ok", "if let Some(m) = metadata { m.closure_requested }")
    if "closure_requested" in txt:
        return ("bad", "unrecognised closure test %s" % txt[:120])
    return None


@rule("C18", "C18-U5", 2, "in unacknowledged mode a Finished PDU is prepared only when the held metadata requested closure (no metadata means no closure)")
def c18_u5(ctx):
    from core import dominators
    from common import val_in

    fns = impl_fns(ctx, RECV)

    def track(key):
        return key[0] == "val" and (key[1] == "self.config.transmission_mode" or key[1].endswith(".closure_requested") or key[1] == "self.metadata")

    n = 0
    for f, b, t, d, r in call_sites(fns, ends("RecvTransaction::prepare_finished"), ctx.prog):
        fl = Flow(ctx.prog, ctx.mods, f, track)
        worlds = fl.at_term(b)
        if worlds and all(val_in(dict(w), "self.config.transmission_mode", {"Acknowledged"}) for w in worlds):
            continue
        # path-sensitive form: every world that is not known to be acknowledged holds `closure_requested == true`
        # of the held metadata (read through `if let Some(m)`, a match, a helper, a flag ...)
        ebv = ExprBuilder(ctx.prog, f, look_through=False)

        def of_metadata(place):
            if re.search(r"self\.metadata.*@Some\.0.*\.closure_requested$", place):
                return True
            mb = re.match(r"^(\w+)(\.\*)?\.closure_requested$", place)
            if mb:
                ds = [expr_str(x) for x in ebv.var_defs(mb.group(1))]
                return bool(ds) and all("self.metadata" in x and "@Some.0" in x for x in ds)
            return False

        def closure_true(dw):
            return any(k[0] == "val" and k[1].endswith(".closure_requested") and of_metadata(k[1]) and pos and vals == frozenset([1]) for k, (pos, vals) in dw.items())

        if worlds and all(val_in(dict(w), "self.config.transmission_mode", {"Acknowledged"}) or closure_true(dict(w)) for w in worlds) and f.name not in ("check_finished",):
            n += 1
            yield ok("C18-U5", "RecvTransaction::%s:prepare_finished" % f.name, at(f, t["span"]["line"]), "every non-acknowledged path holds metadata@Some.closure_requested == true")
            continue
        if f.name in ("check_finished",):
            continue  # acknowledged-only helper (its callers are checked by C04-F / the mode dispatch)
        n += 1
        key = "RecvTransaction::%s:prepare_finished" % f.name
        dom = dominators(f)
        eb = ExprBuilder(ctx.prog, f, look_through=False)  # flag variables are examined definition by definition
        verdicts = []
        for sb in f.live_blocks():
            st = f.blocks[sb]["term"]
            if st["k"] != "switch" or sb not in dom.get(b, ()) or sb == b:
                continue
            e = eb.operand(st["discr"])
            got = _closure_guard_form(ctx, f, e)
            if got is None and simp(e)[0] == "place" and re.match(r"^\w+$", simp(e)[1]):
                # a boolean variable: every definition is the closure test itself, `false`, or
                # `true` assigned only where the mode is known to be acknowledged
                forms = []
                flag_locals = [(vn, l) for vn, l, pj in f.var_places if vn == simp(e)[1] and not pj]
                mt = re.match(r"^_(\d+)$", simp(e)[1])
                if not flag_locals and mt:
                    flag_locals = [(simp(e)[1], int(mt.group(1)))]  # a flag temporary (`matches!(..)`)
                for vn, l in flag_locals:
                    for dd in f.defs(l):
                        if dd[0] == "assign" and dd[3]["k"] == "use" and dd[3]["op"].get("k") == "const":
                            if dd[3]["op"].get("val") in (0, False):
                                continue
                            ws = fl.at_stmt(dd[1], dd[2])
                            if ws and all(val_in(dict(w), "self.config.transmission_mode", {"Acknowledged"}) for w in ws):
                                continue
                            # `true` set on the true edge of the closure test itself (match guard / matches!)
                            inner = []
                            for sb2 in f.live_blocks():
                                st2 = f.blocks[sb2]["term"]
                                if st2["k"] != "switch" or sb2 not in dom.get(dd[1], ()) or sb2 == dd[1]:
                                    continue
                                g3 = _closure_guard_form(ctx, f, eb.operand(st2["discr"]))
                                if g3 is None:
                                    continue
                                tr3 = st2["otherwise"] in dom.get(dd[1], ()) or st2["otherwise"] == dd[1] or any(v != 0 and (tb in dom.get(dd[1], ()) or tb == dd[1]) for v, tb in st2["targets"])
                                inner.append((g3, tr3))
                            if any(g3[0] == "ok" and tr3 for g3, tr3 in inner) and not any(g3[0] == "bad" for g3, tr3 in inner):
                                forms.append(("ok", "flag set on the true edge of: " + [g3[1] for g3, tr3 in inner if g3[0] == "ok"][0]))
                                continue
                            forms.append(("bad", "flag %s is set true outside the acknowledged mode" % vn))
                        elif dd[0] in ("assign", "call"):
                            g2 = _closure_guard_form(ctx, f, eb._def_expr(dd, 0, (l,)))
                            forms.append(g2 if g2 is not None else ("bad", "flag %s is also assigned %s" % (vn, expr_str(eb._def_expr(dd, 0, (l,)))[:80])))
                        else:
                            forms.append(("bad", "flag %s has an opaque definition" % vn))
                if forms:
                    bad_ = [x for x in forms if x[0] == "bad"]
                    got = bad_[0] if bad_ else ("ok", "flag: " + forms[0][1])
            if got is None:
                continue
            # polarity: the call must lie on the true edge
            on_true = st["otherwise"] in dom.get(b, ()) or any(v != 0 and tb in dom.get(b, ()) for v, tb in st["targets"])
            verdicts.append((got, on_true))
        if any(g[0] == "ok" and tr for g, tr in verdicts) and not any(g[0] == "bad" for g, tr in verdicts):
            yield ok("C18-U5", key, at(f, t["span"]["line"]), [g[1] for g, tr in verdicts])
        elif verdicts:
            yield bad("C18-U5", key, at(f, t["span"]["line"]), "Finished prepared in unacknowledged mode under a closure test that is not 'metadata held and closure requested': %s" % [(g[1], "true edge" if tr else "false edge") for g, tr in verdicts])
        else:
            yield bad("C18-U5", key, at(f, t["span"]["line"]), "Finished prepared in unacknowledged mode without testing that closure was requested")
    if n == 0:
        raise Anchor("C18-U5", "prepare_finished call sites reachable in unacknowledged mode")


# ================================================================ C01-H
@rule("C01", "C01-H", 1, "the staged file is created only when none is held: a staging file that may already hold received bytes is never replaced while the held-range list still counts them", also=("C09",))
def c01_h(ctx):
    fns = impl_fns(ctx, RECV)

    def track(key):
        return key[0] == "val" and key[1] == "self.file_handle"

    it = inter(ctx, RECV, track, "file_handle")
    n = 0
    for f, b, j, s, ps in field_writes(fns, "self.file_handle"):
        if f.name == "new" or ps != "self.file_handle":
            continue
        eb = ExprBuilder(ctx.prog, f)
        e = simp(eb.rvalue(s["rv"])) if j >= 0 else None
        if e is not None and e[0] == "agg" and e[3] == "None":
            continue  # dropping the handle (shutdown / after publication)
        n += 1
        key = "%s:self.file_handle<-Some" % f.name
        fl = it.flows.get(f.norm)
        worlds = (fl.at_stmt(b, j) if j >= 0 else fl.at_term(b)) if fl is not None else frozenset()
        good, w = all_worlds_satisfy(worlds, lambda dw: val_in(dw, "self.file_handle", {"None"}))
        if good and worlds:
            yield ok("C01-H", key, at(f, s["span"]["line"]), "a staging file is opened only under file_handle.is_none() (chain %s)" % " -> ".join(short(x) for x, _ in it.chain(f.norm)))
        else:
            chain = " -> ".join(short(x) for x, _ in it.chain(f.norm))
            yield bad("C01-H", key, at(f, s["span"]["line"]), "a new staging file replaces the current one without the test that none is held (chain %s; state %s): bytes already received and counted in the range list are lost from the file that will be published" % (chain, world_str(w) if w is not None else "unreachable"))
    if n == 0:
        raise Anchor("C01-H", "assignment of Some(..) to RecvTransaction.file_handle")


# ================================================================ C04-H2
@rule("C04", "C04-H2", 1, "the accessor of the staging file never gives up for want of a file it could have created: no path through get_handle reaches an exit knowing that no staging file is held (a straggler segment after delivery must find a handle - an error there ends the open transaction's task, and the daemon then re-opens the transaction and delivers a second time)", also=("C01",))
def c04_h2(ctx):
    fns = impl_fns(ctx, RECV)

    def track(key):
        return key[0] == "val" and key[1] == "self.file_handle"

    n = 0
    for f in fns:
        if f.name != "get_handle":
            continue
        n += 1
        key = "get_handle:exit-without-handle"
        fl = Flow(ctx.prog, ctx.mods, f, track)
        # functions of the impl that (transitively) store a handle
        writers = {g.norm for g, b_, j_, s_, ps_ in field_writes(fns, "self.file_handle") if ps_ == "self.file_handle" and g.name != "new"}
        grew = True
        while grew:
            grew = False
            for g in fns:
                if g.norm in writers:
                    continue
                if any(h.norm in writers for b_, t_ in g.all_calls() for h in ctx.prog.call_targets(t_)):
                    writers.add(g.norm)
                    grew = True

        def creates(b):
            blk = f.blocks[b]
            if any(s_["k"] == "assign" and f.place_str(s_["place"]) == "self.file_handle" for s_ in blk["stmts"]):
                return True
            t_ = blk["term"]
            return t_["k"] == "call" and any(h.norm in writers for h in ctx.prog.call_targets(t_))

        offending = None
        for b in f.live_blocks():
            ws = [w for w in fl.at_term(b) if val_in(dict(w), "self.file_handle", {"None"})]
            if not ws:
                continue
            reach = f.reachable(b)
            if any(creates(x) for x in reach):
                continue
            if any(f.blocks[x]["term"]["k"] == "return" for x in reach):
                offending = (b, ws[0])
                break
        if offending is None:
            yield ok("C04-H2", key, at(f), "every path that saw file_handle.is_none() goes through the creation of the staging file before the handle is handed out")
        else:
            yield bad("C04-H2", key, at(f), "a path through get_handle reaches its exit with no staging file held and none created (state %s): file data reaching that state returns NoFile, which ends the open receive task" % world_str(offending[1]))
    if n == 0:
        raise Anchor("C04-H2", "RecvTransaction::get_handle")


# ================================================================ C10-K11
@rule("C10", "C10-K11", 2, "a user cancel always takes effect: every return of the public cancel of either transaction lies behind the write of the Cancelled phase (directly or in a callee) - no phase, however late, in which the request is silently dropped")
def c10_k11(ctx):
    n = 0
    for adt, fld in ((RECV, "self.recv_state"), (SEND, "self.send_state")):
        fns = impl_fns(ctx, adt)
        setters = set()
        for g, b_, j_, s_, ps_ in field_writes(fns, fld):
            if ps_ != fld or j_ < 0 or g.name == "new":
                continue
            e = simp(ExprBuilder(ctx.prog, g).rvalue(s_["rv"]))
            if e is not None and e[0] == "agg" and e[3] == "Cancelled":
                setters.add(g.norm)
        direct = set(setters)
        grew = True
        while grew:
            grew = False
            for g in fns:
                if g.norm in setters:
                    continue
                # a caller counts only when the call is unconditional in it: every path from its entry to a return passes the call
                calls = [b_ for b_, t_ in g.all_calls() if any(h.norm in setters for h in ctx.prog.call_targets(t_))]
                if calls and not any(g.blocks[x]["term"]["k"] == "return" for x in g.reachable(0, avoid=calls)):
                    setters.add(g.norm)
                    grew = True
        for f in fns:
            if f.name != "cancel":
                continue
            n += 1
            key = "%s::cancel" % short(adt)
            must = []
            for b in f.live_blocks():
                blk = f.blocks[b]
                if f.norm in direct and any(s_["k"] == "assign" and f.place_str(s_["place"]) == fld for s_ in blk["stmts"]):
                    must.append(b)
                t_ = blk["term"]
                if t_["k"] == "call" and any(h.norm in setters and h.norm != f.norm for h in ctx.prog.call_targets(t_)):
                    must.append(b)
            leak = [x for x in f.reachable(0, avoid=must) if f.blocks[x]["term"]["k"] == "return"]
            if must and not leak:
                yield ok("C10-K11", key, at(f), "every return lies behind the write of %s = Cancelled" % fld)
            else:
                yield bad("C10-K11", key, at(f), "a path through cancel returns without entering the Cancelled phase: in that state a user's cancel request is dropped (no cancel condition reported, nothing sent to the peer)")
    if n < 2:
        raise Anchor("C10-K11", "RecvTransaction::cancel and SendTransaction::cancel")


# ================================================================ C07-S12
@rule("C07", "C07-S12", 1, "the source file stays open from the first segment to the end of the transaction: the sender's file handle is never dropped or emptied outside its constructor and shutdown (the handle carries the first-pass cursor; a handle re-opened lazily starts again at offset 0 and the first pass tiles the file twice)", also=("C19",))
def c07_s12(ctx):
    fns = impl_and_closures(ctx, SEND)
    n = 0
    for f, b, j, s, ps in field_writes(fns, "self.file_handle"):
        if ps != "self.file_handle":
            continue
        n += 1
        if f.name in ("new", "shutdown"):
            continue
        key = "%s:self.file_handle<-None" % f.name
        if j >= 0:
            e = simp(ExprBuilder(ctx.prog, f).rvalue(s["rv"]))
            if e is not None and e[0] == "agg" and e[3] == "None":
                yield bad("C07-S12", key, at(f, s["span"]["line"]), "the sender drops its source file handle in %s: the next segment re-opens the file at offset 0 and the first pass repeats what was already sent" % f.name)
                continue
        yield ok("C07-S12", "%s:self.file_handle<-handle" % f.name, at(f, s["span"]["line"]), "stores a handle")
    for f, b, t, d, r in call_sites(fns, lambda d_, r_: (r_ or d_).endswith("Option::<T>::take") or (r_ or d_).endswith("Option::take") or "mem::take" in (r_ or d_) or "mem::replace" in (r_ or d_), ctx.prog):
        if f.name in ("new", "shutdown"):
            continue
        e = ExprBuilder(ctx.prog, f).call(b, t)
        if "self.file_handle" in expr_str(e):
            yield bad("C07-S12", "%s:self.file_handle.take" % f.name, at(f, t["span"]["line"]), "the sender takes its source file handle out of the transaction in %s" % f.name)
    if n == 0:
        raise Anchor("C07-S12", "writes of SendTransaction.file_handle")


# ================================================================ C19-S
@rule("C19", "C19-S", 2, "suspend stops every limit timer of the transaction, in every mode and phase: each return of suspend lies behind a pause of the positive-ACK and inactivity counters (and of the NAK counter at the receiver) - an unacknowledged receiver with closure still supervises its Finished PDU with the positive-ACK timer")
def c19_s(ctx):
    n = 0
    for adt, counters in ((RECV, ("ack", "nak", "inactivity")), (SEND, ("ack", "inactivity"))):
        for f in impl_fns(ctx, adt):
            if f.name != "suspend":
                continue
            n += 1
            eb = ExprBuilder(ctx.prog, f)
            for c in counters:
                key = "%s::suspend:%s" % (short(adt), c)
                must = []
                for b, t in f.all_calls():
                    d, r, _ = ctx.prog.callee_of(t)
                    nm = r or d or ""
                    if not (nm.endswith("::pause") or nm.endswith("::pause_all") or "pause" in nm.rsplit("::", 1)[-1]):
                        continue
                    es = expr_str(eb.call(b, t))
                    if "self.timer.%s" % c in es or (("self.timer" in es) and ("self.timer." not in es)):
                        must.append(b)
                leak = [x for x in f.reachable(0, avoid=must) if f.blocks[x]["term"]["k"] == "return"]
                if must and not leak:
                    yield ok("C19-S", key, at(f), "paused on every path")
                else:
                    yield bad("C19-S", key, at(f), "a path through suspend returns without pausing the %s counter: it keeps ticking through the suspension and can declare its limit fault while suspended" % c)
    if n < 2:
        raise Anchor("C19-S", "RecvTransaction::suspend and SendTransaction::suspend")


# ================================================================ C09-G10
@rule("C09", "C09-G10", 1, "how many bytes are held decides nothing about which bytes are held: no branch of the receive transaction compares the byte counter with a size or offset (its only test is 'did it grow since the last NAK'); completeness is asked of the range list", also=("C08", "C01"))
def c09_g10(ctx):
    fns = impl_and_closures(ctx, RECV)
    n = 0
    reads = 0
    for f in fns:
        eb = ExprBuilder(ctx.prog, f)
        sites = []
        for b in f.live_blocks():
            t = f.blocks[b]["term"]
            if t["k"] == "switch":
                sites.append((t["span"]["line"], eb.operand(t["discr"])))
            for s_ in f.blocks[b]["stmts"]:
                if s_["k"] == "assign" and s_["rv"]["k"] in ("binop", "binary", "checked_binop"):
                    e_ = eb.rvalue(s_["rv"])
                    if expr_str(e_).startswith(("Lt(", "Le(", "Gt(", "Ge(", "Eq(", "Ne(", "lt(", "le(", "gt(", "ge(", "eq(", "ne(")):
                        sites.append((s_["span"]["line"], e_))
        seen_txt = set()
        for line_, e_ in sites:
            n += 1
            txt = expr_str(e_)
            if "self.received_file_size" not in txt or txt in seen_txt:
                continue
            seen_txt.add(txt)
            reads += 1
            t = {"span": {"line": line_}}
            key = "%s:branch-on-counter" % f.name
            others = [pl for pl in places_in(e_) if pl not in ("self.received_file_size", "self.nak_received_file_size", "self")]
            if "self.nak_received_file_size" in txt and not others:
                yield ok("C09-G10", key, at(f, t["span"]["line"]), "progress-since-last-NAK test: " + txt[:120])
            else:
                yield bad("C09-G10", key, at(f, t["span"]["line"]), "a decision in %s compares the number of bytes held with %s: bytes beyond the EOF size or a hole of equal size make the count right and the file wrong" % (f.name, txt[:160]))
    if n == 0 or reads == 0:
        raise Anchor("C09-G10", "branches of RecvTransaction that read received_file_size")


# ================================================================ C01-P
@rule("C01", "C01-P", 1, "the receiver reports the file as retained only after it copied the staged file to the destination (no shortcut around the copy)")
def c01_p(ctx):
    fns = impl_and_closures(ctx, RECV)
    n = 0
    for f, b, j, s in agg_sites(fns, "FileStatusCode", "Retained"):
        n += 1
        dom = dominators(f)
        eb = ExprBuilder(ctx.prog, f)
        copies = []
        for b2, t2 in f.all_calls():
            cal = ctx.prog.callee_of(t2)[1] or ctx.prog.callee_of(t2)[0] or ""
            if cal.startswith("std::io::copy") or cal.endswith("io::copy"):
                e = eb.call(b2, t2)
                src = sstr(e[3][0])
                dst = simp(e[3][1])
                dsts = [sstr(x) for x in eb.var_defs(dst[1])] if dst[0] == "place" and re.match(r"^\w+$", dst[1]) else [expr_str(dst)]
                if "RecvTransaction::get_handle(" in src and dsts and all("FileStore>::open(" in x or "FileStore::open(" in x for x in dsts):
                    copies.append(b2)
        key = "%s:FileStatusCode::Retained" % f.name + ("#%d" % n if n > 1 else "")
        if copies and any(cb in dom.get(b, ()) and cb != b for cb in copies):
            yield ok("C01-P", key, at(f, s["span"]["line"]), "Retained is built only after io::copy(staged handle -> opened destination) returned")
        else:
            yield bad("C01-P", key, at(f, s["span"]["line"]), "the file status Retained is produced on a path that did not copy the staged file to the destination (the stored file may be an older one of the same size / checksum, or nothing)")
    if n == 0:
        raise Anchor("C01-P", "construction of FileStatusCode::Retained in the receiver")


# ================================================================ C04-S2
@rule("C04", "C04-S2", 2, "the report the sending user gets with a received Finished PDU is generated after the transaction took over that PDU's condition (the sender never reports its own earlier 'no error' for a delivery the receiver failed)", also=("C13",))
def c04_s2(ctx):
    sfns = impl_and_closures(ctx, SEND)
    n = 0
    for f, b, j, s in agg_sites(sfns, "FinishedIndication"):
        eb = ExprBuilder(ctx.prog, f, user_stop=True)
        e = eb.rvalue(s["rv"])
        fl = dict(zip(e[4], e[5]))
        resp = expr_str(fl.get("filestore_responses")) if fl.get("filestore_responses") else ""
        from common import bound_pdu_field
        pduvar = bound_pdu_field(eb, fl.get("filestore_responses"), "@Finished.0", "filestore_response") if fl.get("filestore_responses") is not None else None
        if pduvar is None:
            continue  # an end without a Finished PDU
        n += 1
        key = "%s:FinishedIndication.report" % f.name + ("#%d" % n if n > 1 else "")
        rep = fl.get("report")
        rtxt = expr_str(rep) if rep else "?"
        # the block in which generate_report() is evaluated for this aggregate
        gb = None
        if rep is not None:
            for x in walk(simp(rep)):
                if x[0] == "call" and (callee_name(x) or "").endswith("SendTransaction::generate_report") and isinstance(x[4], tuple):
                    gb = x[4][0]
            if gb is None and rep[0] == "place" and re.match(r"^\w+$", rep[1]):
                for d in eb.var_defs(rep[1]):
                    for x in walk(simp(d)):
                        if x[0] == "call" and (callee_name(x) or "").endswith("SendTransaction::generate_report") and isinstance(x[4], tuple):
                            gb = x[4][0]
        if gb is None:
            yield bad("C04-S2", key, at(f, s["span"]["line"]), "the report of the Finished indication is %s, not generate_report()" % rtxt[:120])
            continue
        dom = dominators(f)
        writes = []
        for _f, wb, wj, ws, ps in field_writes([f], "self.condition"):
            if wj < 0 or ps != "self.condition":
                continue
            if expr_str(simp(eb.rvalue(ws["rv"]))) == "%s.condition" % pduvar or bound_pdu_field(eb, eb.rvalue(ws["rv"]), "@Finished.0", "condition") is not None:
                writes.append((wb, wj))
        if any(wb in dom.get(gb, ()) and wb != gb for wb, wj in writes) or any(wb == gb for wb, wj in writes):
            yield ok("C04-S2", key, at(f, s["span"]["line"]), "self.condition <- %s.condition dominates generate_report()" % pduvar)
        else:
            yield bad("C04-S2", key, at(f, s["span"]["line"]), "generate_report() for the Finished indication runs before self.condition is taken from the received Finished PDU: the sending user is told the sender's earlier condition (NoError) for a delivery the receiver reported as failed")
    if n == 0:
        raise Anchor("C04-S2", "FinishedIndication built from a received Finished PDU in the sender")


# ================================================================ C01-R3
@rule("C01", "C01-R3", 1, "no received file data is dropped: the only way the store operation returns normally without having recorded the segment is an empty payload", also=("C09", "C20"))
def c01_r3(ctx):
    f = ctx.one("C01-R3", "RecvTransaction::store_file_data")
    merges = {b for _f, b, t, d, r in call_sites([f], ends("segments::Segments::merge"), ctx.prog)}
    if not merges:
        raise Anchor("C01-R3", "Segments::merge in store_file_data")
    err = _error_exit_blocks(ctx, f)
    reach = f.reachable(0, avoid=merges | err)
    rets = [b for b in reach if f.blocks[b]["term"]["k"] == "return"]

    def track(key):
        if key[0] == "expr":
            return re.match(r"^(Gt|Lt|Eq|Ne|Ge|Le)\(", key[1]) is not None and "len(" in key[1]
        if key[0] == "call":
            return key[1].split("::")[-1] == "is_empty"
        return False

    fl = Flow(ctx.prog, ctx.mods, f, track, user_stop=True)
    # the blocks on merge-free paths to a return: every such path must go through the `payload is empty` edge
    problems = []
    for rb in rets:
        # worlds at the return restricted to merge-free paths: recompute reachability region
        region = {b for b in reach if rb in f.reachable(b, avoid=merges | err)}
        # find an edge in the region that establishes emptiness and dominates the return within the region
        ok_path = True
        ws = fl.at_term(rb)
        # path-insensitive fallback: every world at the return that is compatible with "not recorded" must show emptiness;
        # worlds are not labelled by path, so require: every branch edge leaving the merge side is an emptiness test
        exits = []
        for b in region:
            t = f.blocks[b]["term"]
            if t["k"] != "switch":
                continue
            succs = [s_ for s_, _l in f.succs(b)]
            to_merge = [s_ for s_ in succs if any(m in f.reachable(s_, avoid=err) for m in merges)]
            away = [s_ for s_ in succs if s_ in region and not any(m in f.reachable(s_, avoid=err) for m in merges)]
            if to_merge and away:
                exits.append((b, away))
        for b, away in exits:
            e = simp(ExprBuilder(ctx.prog, f, user_stop=True).operand(f.blocks[b]["term"]["discr"]))
            txt = expr_str(e)
            if not (re.match(r"^(Gt|Lt|Eq|Ne|Ge|Le)\((Vec|slice)::len\(&?[\w.]+\), const\(0\)\)$", txt) or re.match(r"^(Gt|Lt)\(const\(0\), (Vec|slice)::len\(&?[\w.]+\)\)$", txt) or re.match(r"^(Not\()?(Vec|slice)::is_empty\(&?[\w.]+\)\)?$", txt) or re.match(r"^(Gt|Lt|Eq|Ne|Ge|Le)\(\w+, const\(0\)\)$", txt)):
                ok_path = False
                problems.append("a normal return (L%d) is reached without recording the segment, on the branch `%s` (L%d), which is not the test for an empty payload" % (f.blocks[rb]["term"]["span"]["line"], txt[:100], f.blocks[b]["term"]["span"]["line"]))
    if problems:
        yield bad("C01-R3", "store_file_data:unrecorded-return", at(f), sorted(set(problems))[0])
    else:
        yield ok("C01-R3", "store_file_data:unrecorded-return", at(f), "%d return(s) without merge(), all behind the empty-payload test" % len(rets))



# ================================================================ C04-E: ways for an open transaction's task to die
ERR_TABLE = {
    ("RecvTransaction", "process_pdu"): {"MissingMetadata", "NoChecksum", "NoFile", "UnexpectedPDU"},
    ("SendTransaction", "send_pdu"): {"NoFile"},
    ("SendTransaction", "handle_timeout"): {"NoFile"},
    ("SendTransaction", "send_file_segment"): {"NoFile"},
    ("SendTransaction", "send_missing_data"): {"NoFile"},
    ("SendTransaction", "cancel"): {"NoFile"},
    ("SendTransaction", "process_pdu"): {"UnexpectedPDU"},
}


@rule("C04", "C04-E", 4, "an error returned by a handler of an open transaction ends its task (the daemon then opens a fresh transaction for the same id on the peer's next PDU, which receives and finalises the file again): the handlers construct errors of their own only where the pinned tree does - per entry point, the set of TransactionError kinds built in the code it reaches does not grow")
def c04_e(ctx):
    n = 0
    for adt in (RECV, SEND):
        nm = adt.split("::")[-1]
        fns = impl_fns(ctx, adt)
        allf = impl_and_closures(ctx, adt)
        sites = {}
        for f, b, j, s in agg_sites(allf, "TransactionError"):
            owner = (f.root or f.norm) if f.kind == "Closure" else f.norm
            sites.setdefault(owner, []).append((s["rv"].get("variant"), f, s["span"]["line"]))
        for f in fns:
            v = f.vis or ""
            if not (v.startswith("Public") or "0:0 ~" in v):
                continue
            got = {}
            for g in ctx.prog.reach([f]):
                for var, sf, line in sites.get(g, ()):
                    got.setdefault(var, (sf, line))
            allowed = ERR_TABLE.get((nm, f.name), set())
            if not got and not allowed:
                continue
            n += 1
            extra = sorted(set(got) - allowed)
            key = "%s::%s:own-errors" % (nm, f.name)
            if extra:
                sf, line = got[extra[0]]
                yield bad("C04-E", key, at(sf, line), "%s::%s can now fail with TransactionError::%s (built in %s): a new way for the open transaction's task to end while the peer still addresses it" % (nm, f.name, extra[0], sf.name))
            else:
                yield ok("C04-E", key, at(f), {"own_error_kinds": sorted(got)})
    if n == 0:
        raise Anchor("C04-E", "TransactionError constructions reachable from the transactions' entry points")


# ================================================================ C19-R: nothing is skipped because of a suspension
@rule("C19", "C19-R", 2, "what a received PDU makes the transaction do does not depend on whether it is suspended: no decision in the PDU-processing path reads the suspension state (resume re-arms timers and the NAK list only; a step skipped while suspended - the completeness check, the delivery - would never be made up)")
def c19_r(ctx):
    n = 0
    for adt in (RECV, SEND):
        nm = adt.split("::")[-1]
        root = ctx.one("C19-R", nm + "::process_pdu")
        seen_fns = 0
        hits = []
        for g in sorted(ctx.prog.reach([root])):
            f = ctx.prog.by_norm[g]
            if not (f.norm.startswith(adt) or (f.root or "").startswith(adt)):
                continue
            seen_fns += 1
            eb = ExprBuilder(ctx.prog, f)
            for b in f.live_blocks():
                t = f.blocks[b]["term"]
                if t["k"] != "switch":
                    continue
                e = eb.operand(t["discr"])
                if any(p == "self.state" or p.startswith("self.state.") for p in places_in(e)):
                    # what differs between the outcomes: only (re)arming timers may depend on the suspension
                    # (that is what C19-B asks for); anything else is a skipped step
                    succ = [x for x, _l in f.succs(b)]
                    reach = [f.reachable(x) for x in succ]
                    excl = set()
                    for i_, r_ in enumerate(reach):
                        others = set().union(*[reach[j_] for j_ in range(len(reach)) if j_ != i_]) if len(reach) > 1 else set()
                        excl |= r_ - others
                    other_effects = []
                    for x in sorted(excl):
                        for st in f.blocks[x]["stmts"]:
                            if st["k"] == "assign" and f.place_str(st["place"]).startswith("self.") and not f.place_str(st["place"]).startswith("self.timer"):
                                other_effects.append("write " + f.place_str(st["place"]))
                        tt = f.blocks[x]["term"]
                        if tt["k"] == "call":
                            d_, r_, _i = ctx.prog.callee_of(tt)
                            cal = r_ or d_ or ""
                            if cal.startswith(adt + "::") or cal.startswith("cfdp_core::filestore"):
                                other_effects.append("call " + cal.split("::")[-1])
                    if other_effects:
                        hits.append((f, t["span"]["line"], expr_str(e)[:100] + " guarding " + ", ".join(sorted(set(other_effects))[:4])))
        n += 1
        key = "%s::process_pdu:decisions-on-suspension" % nm
        if hits:
            for i, (f, line, txt) in enumerate(hits):
                yield bad("C19-R", key + ("#%d" % (i + 1) if i else ""), at(f, line), "%s decides on the suspension state (%s) while processing a received PDU: what it skips for a suspended transaction is not made up on resume, so a transfer whose decisive PDU arrives during the suspension never completes" % (f.name, txt))
        else:
            yield ok("C19-R", key, at(root), {"functions_searched": seen_fns, "decisions_reading_self.state": 0})
    if n == 0:
        raise Anchor("C19-R", "process_pdu of the transactions")


# ================================================================ C19-D: resume re-arms what suspend paused
RESUME_REARMS = {
    # (transaction, phase variants of the arm) -> timers that must be re-armed on every path of that arm
    ("SendTransaction", ("SendEof", "Cancelled")): ("ack", "inactivity"),
    ("RecvTransaction", ("Finished", "Cancelled")): ("ack",),
}


@rule("C19", "C19-D", 5, "resume re-arms, on every path of the phase, each timer the phase relies on: the positive-ACK and inactivity timers of a sender waiting after its EOF, the ACK timer of a receiver waiting for ACK(Finished), the receiver's inactivity timer always; the receiver's NAK timer and NAK list in the receive-data phase whenever NAKs apply (acknowledged mode and EOF received or immediate procedure) - skipped only when they do not")
def c19_d(ctx):
    from core import dominators

    n = 0
    for adt in (RECV, SEND):
        nm = adt.split("::")[-1]
        f = ctx.one("C19-D", nm + "::resume")
        eb = ExprBuilder(ctx.prog, f)

        def rearm_blocks(which):
            out = set()
            for b, t in f.all_calls():
                d, r, _ = ctx.prog.callee_of(t)
                cal = (r or d or "").split("::")[-1]
                if cal in ("restart_" + which, "reset_" + which):
                    out.add(b)
            return out

        phase_field = "self.recv_state" if adt == RECV else "self.send_state"
        fl_ph = Flow(ctx.prog, ctx.mods, f, lambda k: k[0] == "val" and k[1] == phase_field)
        line0 = f.line

        def bypass_blocks(rb, region_start=0):
            region = f.reachable(region_start)
            can = {x for x in region if x in rb or (rb & f.reachable(x))}
            out = set()
            for x in can:
                if x in rb:
                    continue
                for y, _l in f.succs(x):
                    if y in region and y not in can and any(f.blocks[z]["term"]["k"] == "return" for z in f.reachable(y)):
                        out.add(y)  # (a way round that ends in `unreachable` / a panic is not a way through resume)
            return can, out

        def phase_excluded(w, phases):
            for k, (pos, vs) in w:
                if k[0] == "val" and k[1] == phase_field:
                    if pos and not (set(vs) & set(phases)):
                        return True
                    if not pos and set(phases) <= set(vs):
                        return True
            return False

        for (tn, phases), timers in RESUME_REARMS.items():
            if tn != nm:
                continue
            for which in timers:
                rb = rearm_blocks(which)
                can, byp = bypass_blocks(rb)
                for ph in phases:
                    n += 1
                    key = "%s::resume:%s:%s" % (nm, ph, which)
                    if not rb or 0 not in can:
                        yield bad("C19-D", key, at(f), "resume never re-arms the %s timer" % which)
                        continue
                    leak = [y for y in sorted(byp) if any(not phase_excluded(w, (ph,)) for w in fl_ph.at_term(y))]
                    if leak:
                        yield bad("C19-D", key, at(f, f.blocks[leak[0]]["term"]["span"]["line"]), "in the %s phase a path through resume does not re-arm the %s timer (it stays paused): what that timer drives - the retransmission it guards, or the limit that ends the transaction - never happens after the resume" % (ph, which))
                    else:
                        yield ok("C19-D", key, at(f), "restart/reset_%s on every path of the phase" % which)
        if adt == RECV:
            # inactivity: always
            n += 1
            rb = rearm_blocks("inactivity")
            r = f.reachable(0, avoid=rb) if 0 not in rb else set()
            if any(f.blocks[x]["term"]["k"] == "return" for x in r):
                yield bad("C19-D", "RecvTransaction::resume:inactivity", at(f), "a path through resume leaves the inactivity timer paused")
            else:
                yield ok("C19-D", "RecvTransaction::resume:inactivity", at(f), "re-armed on every path")
            # receive-data phase: NAK timer + list, skipped only when NAKs do not apply
            n += 1
            key = "RecvTransaction::resume:ReceiveData:nak"
            rb = rearm_blocks("nak")
            can_reach, bypass = bypass_blocks(rb)
            if not rb or 0 not in can_reach:
                yield bad("C19-D", key, at(f), "resume never re-arms the NAK timer in the receive-data phase")
            else:
                fl = Flow(ctx.prog, ctx.mods, f, lambda k: (k[0] == "val" and (k[1] == phase_field or k[1].endswith("transmission_mode") or k[1].endswith("nak_procedure"))) or (k[0] == "call" and k[1].split("::")[-1] == "eof_received"))
                problems = []
                for y in sorted(bypass):
                    for w in fl.at_term(y):
                        if phase_excluded(w, ("ReceiveData",)):
                            continue
                        d = dict(w)
                        mode = [v for k, v in d.items() if k[0] == "val" and k[1].endswith("transmission_mode")]
                        proc = [v for k, v in d.items() if k[0] == "val" and k[1].endswith("nak_procedure")]
                        eofr = [v for k, v in d.items() if k[0] == "call"]
                        not_ack = any((pos and "Acknowledged" not in vs) or (not pos and "Acknowledged" in vs) for pos, vs in mode)
                        deferred = any((pos and "Immediate" not in vs) or (not pos and "Immediate" in vs) for pos, vs in proc)
                        no_eof = any(pos and set(vs) == {0} for pos, vs in eofr)
                        if not (not_ack or (deferred and no_eof)):
                            problems.append(world_str(w)[:160])
                if problems:
                    yield bad("C19-D", key, at(f), "in the receive-data phase resume skips re-arming the NAK timer and recomputing the NAK list on a path where NAKs apply (state %s): a receiver resumed with data still missing never asks for it again" % problems[0])
                else:
                    yield ok("C19-D", key, at(f), "skipped only when not acknowledged, or deferred procedure before EOF")
    if n == 0:
        raise Anchor("C19-D", "resume of the transactions")


# ================================================================ C10-K9: a cancelled acknowledged sender waits for its answers
@rule("C10", "C10-K9", 1, "in acknowledged mode a cancelled sender is not ended by its own send step: after the EOF(cancel) has left it stays to retransmit it and to hear the Finished PDU (shutdown in send_pdu with the phase Cancelled only in unacknowledged mode)")
def c10_k9(ctx):
    f = ctx.one("C10-K9", "SendTransaction::send_pdu")

    def track(key):
        return key[0] == "val" and key[1] in ("self.config.transmission_mode", "self.send_state")

    fl = Flow(ctx.prog, ctx.mods, f, track)
    n = 0
    badw = None
    where = None
    for f2, b, t, d, r in call_sites([f], lambda d_, r_: (r_ or d_ or "").endswith(("SendTransaction::shutdown", "SendTransaction::abandon")), ctx.prog):
        n += 1
        for w in fl.at_term(b):
            dw = dict(w)
            ph = dw.get(("val", "self.send_state"))
            may_cancelled = ph is None or (ph[0] and "Cancelled" in ph[1]) or (not ph[0] and "Cancelled" not in ph[1])
            if may_cancelled and not val_in(dw, "self.config.transmission_mode", {"Unacknowledged"}):
                badw, where = w, t["span"]["line"]
    if badw is not None:
        yield bad("C10-K9", "send_pdu:Cancelled->shutdown", at(f, where), "the send step ends a cancelled sender that may be in acknowledged mode (state %s): its EOF(cancel) is never retransmitted and the receiver's Finished is never answered" % world_str(badw))
    else:
        yield ok("C10-K9", "send_pdu:Cancelled->shutdown", at(f), {"shutdown_sites_in_send_pdu": n})


# ================================================================ C10-K10: the peer's verdict is always adopted
@rule("C10", "C10-K10", 4, "an EOF (at the receiver) or a Finished (at the sender) that reaches the arm which handles it always has its condition adopted: from the point where the PDU's content is bound, every path to a successful return passes `self.condition = <pdu>.condition` - no early return for a 'retransmission' skips a cancel announced by the peer", also=("C04",))
def c10_k10(ctx):
    n = 0
    for adt, payload in ((RECV, "@EoF.0"), (SEND, "@Finished.0")):
        nm = adt.split("::")[-1]
        f = ctx.one("C10-K10", nm + "::process_pdu")
        eb = ExprBuilder(ctx.prog, f, user_stop=True)
        err = _error_exit_blocks(ctx, f)
        # the assignments, grouped by the bound PDU variable
        by_var = {}
        for f2, b, j, s_, ps in field_writes([f], "self.condition"):
            if j < 0:
                continue
            from common import bound_pdu_field
            pv = bound_pdu_field(eb, eb.rvalue(s_["rv"]), payload, "condition")
            if pv is None:
                continue
            by_var.setdefault(pv, set()).add(b)
        for var, ablocks in sorted(by_var.items()):
            ls = [l for vn, l, pj in f.var_places if vn == var and not pj]
            binds = [d[1] for l in ls for d in f.defs(l) if d[0] == "assign"]
            for bb in binds:
                n += 1
                key = "%s::process_pdu:%s.condition-adopted" % (nm, var)
                if bb in ablocks:
                    yield ok("C10-K10", key, at(f, f.blocks[bb]["term"]["span"]["line"]), "adopted where the PDU is bound")
                    continue
                r = f.reachable(bb, avoid=ablocks | err)
                leak = [x for x in r if f.blocks[x]["term"]["k"] == "return"]
                if leak:
                    yield bad("C10-K10", key, at(f, f.blocks[bb]["term"]["span"]["line"]), "a path from the arm that handles this PDU returns successfully without `self.condition = %s.condition`: a cancel (or fault) the peer announces in it is ignored on that path - the transaction keeps waiting for what the peer will never send" % var)
                else:
                    yield ok("C10-K10", key, at(f, f.blocks[bb]["term"]["span"]["line"]), "every successful path adopts the condition")
    if n == 0:
        raise Anchor("C10-K10", "`self.condition = <pdu>.condition` in the EOF / Finished arms")
