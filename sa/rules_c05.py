"""C05: sibling agreement of encode / decode / encoded_len - bit-field layout (L1),
tag tables (L4), length forms (L3)."""
import re

from core import ExprBuilder, callee_name, expr_str, short, strip_generics, walk, places_in, calls_in, dominators, is_transparent, inline_helpers
from engine import rule, ok, bad, undecided, at, Anchor
from common import agg_sites, backslice, simp, sstr
from ranges import Ranges, ty_range, const_returns


def core_fns(ctx):
    return [f for f in ctx.prog.by_norm.values() if f.crate == "cfdp_core"]


def _is_tag_enum(ctx, ty):
    a = ctx.prog.adt_of_type(ty)
    return bool(a and a["kind"] == "Enum" and not any(v.get("fields") for v in a["variants"]))


# ================================================================ L4: tag tables
def tag_writers(ctx):
    """(fn, E path, T type) for inherent `&self -> fieldless enum` methods of enums."""
    for f in core_fns(ctx):
        if f.kind != "AssocFn" or f.impl_trait or f.arg_count != 1:
            continue
        rt = f.locals[0]["ty"]
        if not _is_tag_enum(ctx, rt):
            continue
        e = ctx.prog.adt_of_type(f.locals[1]["ty"])
        if not e or e["kind"] != "Enum" or not any(v.get("fields") for v in e["variants"]):
            continue
        yield f, strip_generics(e["path"]), rt


def writer_map(ctx, f):
    """variant of self -> tag name | None (delegated / computed)."""
    eb = ExprBuilder(ctx.prog, f)
    dom = dominators(f)
    out = {}
    for b in f.live_blocks():
        t = f.blocks[b]["term"]
        if t["k"] != "switch":
            continue
        e = eb.operand(t["discr"])
        if not (e[0] == "discr" and expr_str(e[1]) in ("self", "self.*")):
            continue
        names = ctx.prog.variant_names(f.locals[1]["ty"])
        for v, tb in t["targets"]:
            var = names.get(v, str(v)) if names else str(v)
            blocks = [x for x in f.live_blocks() if tb in dom.get(x, ())]
            tags = []
            for x in blocks:
                for s in f.blocks[x]["stmts"]:
                    if s["k"] == "assign" and s["place"]["local"] == 0 and not s["place"]["proj"]:
                        rv = s["rv"]
                        if rv["k"] == "agg" and rv["agg"] == "adt" and not rv["ops"]:
                            tags.append(rv.get("variant"))
                        else:
                            tags.append(None)
                tt = f.blocks[x]["term"]
                if tt["k"] == "call" and tt["dest"]["local"] == 0:
                    tags.append(None)
            out[var] = tags[0] if len(tags) == 1 else None
    return out


def reader_maps(ctx, g, tag_ty, epath):
    """tag name -> set of variants of E constructed in the arm, over all switches of g on a value of type tag_ty."""
    eb = ExprBuilder(ctx.prog, g)
    dom = dominators(g)
    out = {}
    tnames = ctx.prog.variant_names(tag_ty)
    for b in g.live_blocks():
        t = g.blocks[b]["term"]
        if t["k"] != "switch":
            continue
        e = eb.operand(t["discr"])
        if e[0] != "discr":
            continue
        inner = e[1]
        ty = inner[2] if inner[0] == "place" else (inner[3] if inner[0] == "proj" else (inner[4][2] if inner[0] == "call" else ""))
        if not isinstance(ty, str):
            continue
        a1, a2 = ctx.prog.adt_of_type(ty), ctx.prog.adt_of_type(tag_ty)
        if a1 is None or a1 is not a2:
            continue
        explicit = set()
        arms = [(tnames.get(v, str(v)), tb) for v, tb in t["targets"]]
        for tag, tb in arms:
            blocks = [x for x in g.live_blocks() if tb in dom.get(x, ())]
            vs = set()
            for x in blocks:
                for s in g.blocks[x]["stmts"]:
                    if s["k"] == "assign" and s["rv"]["k"] == "agg" and s["rv"]["agg"] == "adt" and strip_generics(s["rv"]["adt"]) == epath:
                        vs.add(s["rv"].get("variant"))
            out.setdefault(tag, set()).update(vs)
    return out


@rule("C05", "C05-L4", 30, "tag tables: the tag a variant is written with is the tag under which the decoder builds that variant, and every tagged variant has a decoder arm")
def c05_l4(ctx):
    writers = list(tag_writers(ctx))
    if len(writers) < 5:
        raise Anchor("C05-L4", "tag-writer functions (found %d)" % len(writers))
    decoders = [g for g in core_fns(ctx) if g.name == "decode" and g.kind == "AssocFn"]
    for f, epath, tag_ty in writers:
        wm = writer_map(ctx, f)
        if not wm:
            yield undecided("C05-L4", "%s:shape" % short(f.norm), at(f), "writer is not a single match on self")
            continue
        rm = {}
        readers = []
        for g in decoders:
            m = reader_maps(ctx, g, tag_ty, epath)
            if any(m.values()):
                readers.append(g)
                for k, v in m.items():
                    rm.setdefault(k, set()).update(v)
        ename = epath.split("::")[-1]
        if not readers:
            yield undecided("C05-L4", "%s:no-reader" % short(f.norm), at(f), "no decoder dispatches on %s to build %s" % (tag_ty, ename))
            continue
        inv = {}
        for v, t in wm.items():
            if t is not None:
                inv.setdefault(t, set()).add(v)
        for v, t in sorted(wm.items()):
            key = "%s::%s" % (ename, v)
            if t is None:
                yield ok("C05-L4", key, at(f), "tag delegated to the nested type", nontrivial=False)
                continue
            built = rm.get(t, set())
            where = at(readers[0])
            if v in built and built <= inv.get(t, set()):
                yield ok("C05-L4", key, where, "written as %s; %s builds %s under that tag" % (t, short(readers[0].norm), sorted(built)))
            elif v not in built:
                elsewhere = sorted(tt for tt, vs in rm.items() if v in vs)
                yield bad("C05-L4", key, where, "%s::%s is written with tag %s but the decoder builds it under %s (under %s it builds %s)" % (ename, v, t, elsewhere or "no tag", t, sorted(built)))
            else:
                yield bad("C05-L4", key, where, "under tag %s the decoder also builds %s, which are written with other tags" % (t, sorted(built - inv.get(t, set()))))


# ================================================================ L1: bit fields
class Leaf:
    def __init__(self, value, mask, shift, line):
        self.value = value
        self.mask = mask
        self.shift = shift
        self.line = line


def _const_int(e):
    if e[0] == "const" and isinstance(e[1], int) and not isinstance(e[1], bool):
        return e[1]
    if e[0] == "cast":
        return _const_int(e[2])
    return None


def _leaves(e, line, out):
    """Decompose a u8 composition expression into bit-field leaves."""
    k = e[0]
    if k == "binop" and e[1] == "BitOr":
        _leaves(e[2], line, out)
        _leaves(e[3], line, out)
        return
    if k == "binop" and e[1] == "Shl":
        c = _const_int(e[3])
        if c is not None:
            v, m = _unmask(e[2])
            out.append(Leaf(v, m, c, line))
            return
    v, m = _unmask(e)
    out.append(Leaf(v, m, 0, line))


def _unmask(e):
    if e[0] == "binop" and e[1] == "BitAnd":
        for a, b in ((e[2], e[3]), (e[3], e[2])):
            c = _const_int(b)
            if c is not None:
                return a, c
    if e[0] == "cast":
        v, m = _unmask(e[2])
        if m is not None:
            return v, m
    return e, None


def _is_runtime_len(e):
    """`x.len() as u8`: a run-time length, assumed to respect its wire limit."""
    while e[0] == "cast":
        e = e[2]
    return e[0] == "call" and (callee_name(e) or "").split("::")[-1] == "len"


def _or_all(r):
    """OR of all values in an interval = all bits up to the highest."""
    if r is None:
        return 0xFF
    return (1 << max(r[1], 0).bit_length()) - 1


def encoder_fields(ctx, f):
    """field name -> [Leaf] for bit-field compositions in an encode body that read self.<field>;
    plus the list of composite trees (for overlap checks)."""
    out = {}
    trees = []
    fns = [f] + ctx.prog.closures_of(f)
    for g in fns:
        eb = ExprBuilder(ctx.prog, g)
        rg = Ranges(ctx.prog, g)
        cands = []
        for b in g.live_blocks():
            blk = g.blocks[b]
            for s in blk["stmts"]:
                if s["k"] == "assign":
                    e = eb.rvalue(s["rv"])
                    if e[0] == "binop" and e[1] in ("BitOr", "Shl", "BitAnd"):
                        cands.append((expr_str(e), e, s["span"]["line"]))
            tt = blk["term"]
            if tt["k"] == "call":
                # a byte composed by a local helper: f(&self.a, &self.b) -> u8
                ce = eb.call(b, tt)
                tgt = ctx.prog.by_norm.get(callee_name(ce) or "")
                if tgt is not None and tgt.locals[0]["ty"] == "u8" and tgt.name not in ("encode", "decode", "encoded_len"):
                    ie = inline_helpers(ctx.prog, ce)
                    if ie[0] == "binop" and ie[1] in ("BitOr", "Shl", "BitAnd"):
                        cands.append((expr_str(ie), ie, tt["span"]["line"]))
        tops = [c for c in cands if not any(c[0] != d[0] and c[0] in d[0] for d in cands)]
        seen = set()
        for txt, e, line in tops:
            if txt in seen:
                continue
            seen.add(txt)
            ty = rg.ty_of(e)
            if ty not in ("u8",):
                continue
            leaves = []
            _leaves(e, line, leaves)
            trees.append((g, line, leaves))
            for lf in leaves:
                for p in places_in(lf.value):
                    m = re.match(r"^self\.(\w+)", p)
                    if m:
                        out.setdefault(m.group(1), []).append((g, lf))
    return out, trees


def _is_u8_value(e):
    ty = e[2] if e[0] == "place" else (e[3] if e[0] in ("proj", "cast") else (e[4][2] if e[0] == "call" and len(e[4]) > 2 else None))
    return ty == "u8"


def decoder_fields(ctx, f, adt_path):
    """field name -> [(Mask, shift, line)] : bit extractions in the backward slice of each field
    of the aggregate(s) the decoder returns."""
    out = {}
    fns = [f]
    for g, b, j, s in agg_sites(fns, adt_path.split("::")[-1]):
        if strip_generics(s["rv"]["adt"]) != adt_path:
            continue
        ebu = ExprBuilder(ctx.prog, g, user_stop=True)
        e = ebu.rvalue(s["rv"])
        for name, op in zip(e[4], e[5]):
            calls, places, nodes = backslice(ctx.prog, g, op, user_stop=True)
            nodes = list(nodes) + helper_slice_nodes(ctx, nodes)
            ex = out.setdefault(name, [])
            seen = set()
            for n in nodes:
                got = None
                if n[0] == "binop" and n[1] == "Shr" and _const_int(n[3]) is not None:
                    v, m = _unmask(n[2])
                    if m is None and _is_u8_value(n[2]) and 0 < _const_int(n[3]) < 8:
                        # `b >> k` on an octet keeps exactly the bits above k: the mask is implicit
                        v, m = n[2], (0xFF << _const_int(n[3])) & 0xFF
                    if m is not None:
                        got = (m, _const_int(n[3]), expr_str(v))
                        seen.add(expr_str(n[2]))
                elif n[0] == "binop" and n[1] == "BitAnd":
                    v, m = _unmask(n)
                    if m is not None and expr_str(n) not in seen:
                        got = (m, None, expr_str(v))
                if got and got not in ex:
                    ex.append(got)
            # constant alternatives of the field's own enum type in its slice
            fty = None
            for li, nm_ in enumerate(e[4]):
                if nm_ == name:
                    fty = ebu.fn.locals[0]["ty"]  # placeholder, refined below
            alts = sorted({n[3] for n in nodes if n[0] == "agg" and n[1] == "adt" and not n[5] and n[3] and _field_adt(ctx, adt_path, name) and strip_generics(n[2]) == _field_adt(ctx, adt_path, name)})
            if alts:
                CONST_ALTS.setdefault((adt_path, name), set()).update(alts)
            if not ex and not calls:
                # value selected by control flow (a canonicalising match on decoded tags): take the
                # extractions that feed the discriminants of the switches dominating the choice
                nodes2 = control_slice_nodes(ctx, g, op)
                CONTROL_FIELDS.add((adt_path, name))
                seen2 = set()
                for n in nodes2:
                    got = None
                    if n[0] == "binop" and n[1] == "Shr" and _const_int(n[3]) is not None:
                        v, m = _unmask(n[2])
                        if m is not None:
                            got = (m, _const_int(n[3]), expr_str(v))
                            seen2.add(expr_str(n[2]))
                    elif n[0] == "binop" and n[1] == "BitAnd":
                        v, m = _unmask(n)
                        if m is not None and expr_str(n) not in seen2:
                            got = (m, None, expr_str(v))
                    if got and got not in ex:
                        ex.append(got)
            # a bare mask that is also the operand of a recorded shift is not a separate field
            shifted = {(m, src) for m, k, src in ex if k is not None}
            out[name] = [(m, k, src) for m, k, src in ex if k is not None or (m, src) not in shifted]
    return out


def helper_slice_nodes(ctx, nodes, depth=0):
    """Nodes of the return-value slices of local helper functions called in a slice
    (component-sensitive for tuple results: `helper(..)?.N` follows the N-th component)."""
    out = []
    if depth > 2:
        return out
    done = set()
    for n in nodes:
        comp = None
        call = None
        if n[0] == "proj":
            base = simp(n[1])
            m = re.search(r"\.(\d+)$", n[2] or "")
            if base[0] == "call" and m:
                call, comp = base, int(m.group(1))
        elif n[0] == "call":
            call = n
        if call is None:
            continue
        tgt = ctx.prog.by_norm.get(callee_name(call) or "")
        if tgt is None or tgt.crate != "cfdp_core" or tgt.name in ("encode", "decode", "encoded_len") or tgt.kind == "Closure":
            continue
        if tgt.impl_trait:
            continue
        key = (tgt.norm, comp)
        if key in done or (comp is None and any(k[0] == tgt.norm for k in done)):
            continue
        done.add(key)
        ebu = ExprBuilder(ctx.prog, tgt, user_stop=True)
        for d in tgt.defs(0):
            if d[0] not in ("assign", "call"):
                continue
            e = ebu._def_expr(d, 0, (0,))
            roots = [e]
            if comp is not None:
                x = e
                # Ok{tuple{a, b}} / tuple{a, b}
                while x[0] == "agg" and x[1] == "adt" and len(x[5]) == 1:
                    x = x[5][0]
                if x[0] == "place" and re.match(r"^\w+$", x[1]):
                    ds = ebu.var_defs(x[1])
                    if len(ds) == 1:
                        x = ds[0]
                if x[0] == "agg" and x[1] == "tuple" and comp < len(x[5]):
                    roots = [x[5][comp]]
            for r in roots:
                calls, places, ns = backslice(ctx.prog, tgt, r, user_stop=True)
                out.extend(ns)
                out.extend(helper_slice_nodes(ctx, ns, depth + 1))
    return out


def control_slice_nodes(ctx, g, op):
    """Slice nodes of the discriminants of the switches that dominate the definitions of the
    (constant-valued) variable `op`."""
    dom = dominators(g)
    ebu = ExprBuilder(ctx.prog, g, user_stop=True)
    names = {vn: l for vn, l, pj in g.var_places if not pj}
    todo = [op]
    blocks = set()
    seenv = set()
    while todo:
        x = todo.pop()
        for y in walk(x):
            if y[0] == "place" and re.match(r"^\w+$", y[1]) and y[1] in names and y[1] not in seenv:
                seenv.add(y[1])
                for d in g.defs(names[y[1]]):
                    if d[0] in ("assign", "call"):
                        blocks.add(d[1])
                        todo.append(ebu._def_expr(d, 0, (names[y[1]],)))
                    elif d[0] == "partial":
                        blocks.add(d[1])
    out = []
    sw = set()
    for b in blocks:
        for s_ in dom.get(b, ()):
            if g.blocks[s_]["term"]["k"] == "switch":
                sw.add(s_)
    for s_ in sorted(sw):
        e = ebu.operand(g.blocks[s_]["term"]["discr"])
        calls, places, nodes = backslice(ctx.prog, g, e, user_stop=True)
        out.extend(nodes)
    return out


def decoder_const_fields(ctx, f, adt_path):
    """Fields of the returned aggregate whose data origins are enum constants only."""
    out = set()
    for g, b, j, s in agg_sites([f], adt_path.split("::")[-1]):
        if strip_generics(s["rv"]["adt"]) != adt_path:
            continue
        ebu = ExprBuilder(ctx.prog, g, user_stop=True)
        e = ebu.rvalue(s["rv"])
        for name, op in zip(e[4], e[5]):
            calls, places, nodes = backslice(ctx.prog, g, op, user_stop=True)
            leaves = [n for n in nodes if n[0] in ("agg", "const", "call")]
            if leaves and not calls and all((n[0] == "agg" and not n[5]) or (n[0] == "agg" and n[1] == "tuple") or n[0] == "const" for n in leaves):
                out.add(name)
    return out


CONST_ALTS = {}
CONTROL_FIELDS = set()


def _field_adt(ctx, adt_path, field):
    a = ctx.prog.adts.get(adt_path)
    if not a:
        return None
    for v in a["variants"]:
        for fl in v.get("fields", ()):
            if fl["name"] == field:
                fa = ctx.prog.adt_of_type(fl["ty"])
                return strip_generics(fa["path"]) if fa else None
    return None


def codec_types(ctx):
    """ADT path -> {'encode': fn, 'decode': fn, 'encoded_len': fn} for local types that have both."""
    by = {}
    for f in core_fns(ctx):
        if f.kind != "AssocFn" or f.name not in ("encode", "decode", "encoded_len"):
            continue
        a = f.impl_self_adt
        if not a:
            continue
        by.setdefault(strip_generics(a), {})[f.name] = f
    return {k: v for k, v in by.items() if "encode" in v and "decode" in v}


def _tz(m):
    return (m & -m).bit_length() - 1 if m else 0


DECODE_ONLY_OK = {
    ("PDUHeader", "destination_entity_id"): "both entity ids share one length nibble on the wire; the encoder writes it from the source id (C05-L3 / the header rules check the widths agree)",
    ("SFORequest", "prior_waypoints_count"): "read as a whole octet; the masks in its slice belong to the flags octet read just before (control dependence)",
}


@rule("C05", "C05-L1", 40, "bit-field layout: for every field the encoder packs into a byte, the decoder extracts it from the same position with a mask that is aligned with its shift and wide enough for every value the encoder can put there; encoder masks cut no possible value; fields of one byte do not overlap", also=("C15",))
def c05_l1(ctx):
    types = codec_types(ctx)
    CONST_ALTS.clear()
    CONTROL_FIELDS.clear()
    if len(types) < 30:
        raise Anchor("C05-L1", "types with encode+decode (found %d)" % len(types))
    n = 0
    for path in sorted(types):
        fe, fd = types[path]["encode"], types[path]["decode"]
        tn = path.split("::")[-1]
        enc, trees = encoder_fields(ctx, fe)
        dec = decoder_fields(ctx, fd, path)
        dec_const = decoder_const_fields(ctx, fd, path)
        rg_cache = {}
        # overlap inside one composed byte
        for g, line, leaves in trees:
            if len(leaves) < 2:
                continue
            rg = rg_cache.setdefault(g.norm, Ranges(ctx.prog, g))
            used = 0
            clash = None
            for lf in leaves:
                if lf.mask is None and _is_runtime_len(lf.value):
                    continue  # a length is assumed to fit the bits left to it (wire limit)
                bits = ((_or_all(rg.of(lf.value)) & (lf.mask if lf.mask is not None else 0xFF)) << lf.shift) & 0xFF
                if used & bits:
                    clash = (expr_str(lf.value)[:60], bin(bits))
                used |= bits
            n += 1
            key = "%s::encode:byte@%s" % (tn, "+".join(sorted({re.sub(r"^self\.", "", p) for lf in leaves for p in places_in(lf.value) if p.startswith("self.")}))[:80])
            if clash:
                yield bad("C05-L1", key, at(g, line), "two fields packed into one byte overlap: %s occupies bits %s already used" % clash)
            else:
                yield ok("C05-L1", key, at(g, line), "fields occupy disjoint bits %s" % bin(used))
        for fld in sorted(set(enc) | set(dec)):
            E = enc.get(fld, [])
            D = dec.get(fld, [])
            if not E and not D:
                continue
            key = "%s.%s" % (tn, fld)
            if E and not D:
                # field packed by the encoder; the decoder has no bit extraction in the field's slice
                if fld in dec and fld in dec_const:
                    n += 1
                    yield ok("C05-L1", key, at(fd), "decoded value is selected by a match on decoded tags (constants only): canonicalising decoder", nontrivial=False)
                elif fld in dec:
                    n += 1
                    yield bad("C05-L1", key, at(fd), "the encoder packs %s into a bit field (shift %s) but the decoder's value for it does not come from a masked byte" % (fld, sorted({lf.shift for _, lf in E})))
                continue
            if D and not E:
                # decoded from bits, but no bit field of the encoder is filled from this field. Without composed
                # bytes in the encoder the field goes through a helper table (L4's business). With composed bytes
                # the bits the decoder reads are written from something else: unless that is one of the
                # reviewed cases below, decode(encode(v)).field need not be v.field
                if trees and (tn, fld) not in DECODE_ONLY_OK:
                    n += 1
                    yield bad("C05-L1", key, at(fd), "the decoder reads %s from bits %s, but the encoder fills no bit field from self.%s (what it writes there is derived from other fields): a value of %s that disagrees with them does not survive encode -> decode" % (fld, [(hex(M), k) for M, k, _ in D][:3], fld, fld))
                continue
            problems = []
            alts = CONST_ALTS.get((path, fld))
            if alts and (path, fld) not in CONTROL_FIELDS:
                problems.append("the decoder can replace the decoded bits of %s by the constant(s) %s: the value the encoder wrote is not always the value read back" % (fld, sorted(alts)))
            for g, lf in E:
                rg = rg_cache.setdefault(g.norm, Ranges(ctx.prog, g))
                r = rg.of(lf.value)
                bits_v = _or_all(r) & 0xFF
                if lf.mask is not None and bits_v & ~lf.mask:
                    problems.append("encoder mask %s cuts values the field can take (range %s)" % (hex(lf.mask), r))
                    bits_v &= lf.mask
                elif lf.mask is not None:
                    bits_v &= lf.mask
                placed = (bits_v << lf.shift) & 0xFF
                match = None
                for M, k, src in D:
                    keff = k if k is not None else _tz(M)
                    if keff == lf.shift or (k is None and lf.shift == 0):
                        match = (M, k, keff if k is not None or lf.shift else 0)
                        break
                if match is None:
                    problems.append("encoder puts the field at shift %d; decoder extracts it with %s" % (lf.shift, [(hex(M), k) for M, k, _ in D]))
                    continue
                M, k, keff = match
                if k is not None and M & ((1 << k) - 1):
                    problems.append("decoder mask %s has bits below its shift %d" % (hex(M), k))
                if lf.mask is None and _is_runtime_len(lf.value):
                    continue  # wire-limit assumption: the length fits the decoder's mask
                if placed & ~M:
                    problems.append("decoder mask %s does not cover the bits %s the encoder can set" % (hex(M), hex(placed)))
            n += 1
            if problems:
                for i, p in enumerate(sorted(set(problems))):
                    yield bad("C05-L1", key + (":%d" % i if i else ""), at(fd), p)
            else:
                yield ok("C05-L1", key, at(fd), {"encoder": [(lf.shift, hex(lf.mask) if lf.mask is not None else None) for _, lf in E], "decoder": [(hex(M), k) for M, k, _ in D]})
    if n == 0:
        raise Anchor("C05-L1", "bit fields")


# ================================================================ L3: length forms
@rule("C05", "C05-L3", 30, "the length announced by encoded_len is the length of what encode emits (symbolic length forms, all paths)")
def c05_l3(ctx):
    from lenforms import Lengths, Unknown

    by = {}
    for f in core_fns(ctx):
        if f.kind != "AssocFn" or f.name not in ("encode", "encoded_len") or not f.impl_self_adt:
            continue
        by.setdefault(strip_generics(f.impl_self_adt), {})[f.name] = f
    # types whose announced length is a set of plain constants (`SegmentRequestForm`: 8 or 16): a nested value of
    # such a type, written `L(T, x)`, stands for those constants on either side
    fixed = {}
    for path in sorted(by):
        d = by[path]
        if "encode" in d and "encoded_len" in d and path.split("::")[-1] != "VariableID":
            try:
                ann = Lengths(ctx.prog).announced(d["encoded_len"])
            except Unknown:
                continue
            if ann and all(re.match(r"^\d+$", k) for k in ann):
                fixed[path.split("::")[-1]] = sorted(int(k) for k in ann)

    def expand(keys):
        P = Lengths(ctx.prog)
        out = set()
        for k in keys:
            alts = [P._parse(k)]
            for _ in range(6):
                nxt = []
                changed = False
                for f_ in alts:
                    hit = None
                    for a in f_.t:
                        m = re.match(r"^L\((\w+), ", a)
                        if m and m.group(1) in fixed and a.endswith(")"):
                            hit = (a, m.group(1))
                            break
                    if hit is None:
                        nxt.append(f_)
                        continue
                    changed = True
                    c = f_.t[hit[0]]
                    rest = type(f_)({x: y for x, y in f_.t.items() if x != hit[0]})
                    for v in fixed[hit[1]]:
                        nxt.append(rest.add(type(f_).const(c * v)))
                alts = nxt
                if not changed:
                    break
            out |= {f_.key() for f_ in alts}
        return out

    n = 0
    for path in sorted(by):
        d = by[path]
        if "encode" not in d or "encoded_len" not in d:
            continue
        n += 1
        tn = path.split("::")[-1]
        key = "%s:len" % tn
        if tn == "VariableID":
            # VariableID::encoded_len is the id *width* (what the header's id-length fields carry) while
            # encode emits the length-prefixed LV form; both are the primitives the forms below are built on
            yield ok("C05-L3", key, at(d["encoded_len"]), "primitive: encoded_len = id width idw, encode = 1 + idw (LV form); users are checked against these", nontrivial=False)
            continue
        L = Lengths(ctx.prog)
        try:
            emitted = L.emit(d["encode"])
            announced = L.announced(d["encoded_len"])
        except Unknown as u:
            yield undecided("C05-L3", key, at(d["encode"]), "length form not computable: %s" % u)
            continue
        if tn == "PDU":
            # PDU::encoded_len excludes the CRC trailer by design (header length field counts it separately)
            emitted = {re.sub(r"^2 \+ ", "", k) if k.startswith("2 + ") else k for k in emitted}
        if emitted != announced:
            emitted, announced = expand(emitted), expand(announced)
        if emitted == announced:
            yield ok("C05-L3", key, at(d["encoded_len"]), {"forms": sorted(emitted)[:8]})
        else:
            yield bad("C05-L3", key, at(d["encoded_len"]), "encode emits %s but encoded_len announces %s" % (sorted(emitted - announced)[:4] or "a subset", sorted(announced - emitted)[:4] or "a subset"))
    if n == 0:
        raise Anchor("C05-L3", "types with encode + encoded_len")


# ================================================================ C05-L2
CONSULT = ("read", "read_to_end", "read_to_string", "fill_buf", "bytes", "read_buf", "read_vectored", "has_data_left")
READS = ("read_exact", "read_u8", "read_i8", "read_u16", "read_u24", "read_u32", "read_u48", "read_u64", "read_u128", "read_uint", "read_i16", "read_i32", "read_i64")


@rule("C05", "C05-L2", 5, "items are self-delimiting: a decoder that consults the end of its input (short read, read_to_end) is only ever run in tail position of its reader - nothing more is read from that reader after it; no decoder decides a value from a short read", also=("C06",))
def c05_l2(ctx):
    """Necessary for decode(encode(v)) == v when items are written back to back: an item whose
    decoder decides a value from 'the input ended here' decodes differently when followed by
    another item.  The set E of end-of-input-dependent decoders is computed over the call graph
    (a decoder that hands its own reader to a member of E is in E); every call of a member of E is
    then required to be the last read on the reader it is given."""
    D = [f for f in ctx.prog.by_norm.values() if f.crate == "cfdp_core" and f.kind != "Closure" and f.arg_count >= 1 and re.match(r"^&mut (T|&\[u8\]|impl )", f.locals[1]["ty"])]
    if len(D) < 30:
        raise Anchor("C05-L2", "decoders taking a generic reader (%d found)" % len(D))
    Dn = {f.norm for f in D}
    info = {}
    for f in D:
        eb = ExprBuilder(ctx.prog, f, user_stop=True)
        own = [vn for vn, l, pj in f.var_places if l == 1 and not pj]
        own = own[0] if own else None
        calls = []
        for b, t in f.all_calls():
            e = eb.call(b, t)
            if not e[3]:
                continue
            cal = callee_name(e) or ""
            last = cal.split("::")[-1]
            a0 = e[3][0]
            while a0[0] == "ref":
                a0 = a0[2]
            rd = expr_str(a0)
            kind = None
            tg = [g.norm for g in ctx.prog.call_targets(t) if g.norm in Dn]
            if tg:
                kind = "sub"
            elif last in CONSULT and ("Read" in cal or "BufRead" in cal or "io::" in cal):
                kind = "consult"
            elif last in READS and ("Read" in cal or "io::" in cal or "byteorder" in cal):
                kind = "read"
            if kind:
                calls.append((b, t, kind, rd, tg, last))
        info[f.norm] = (f, own, calls)
    E = {}
    changed = True
    while changed:
        changed = False
        for n, (f, own, calls) in info.items():
            if n in E:
                continue
            for b, t, kind, rd, tg, last in calls:
                if rd != own:
                    continue
                if kind == "consult":
                    E[n] = "%s() on its own reader" % last
                    changed = True
                    break
                if kind == "sub" and any(g in E for g in tg):
                    E[n] = "hands its reader to " + short([g for g in tg if g in E][0])
                    changed = True
                    break
    if len(E) < 5:
        raise Anchor("C05-L2", "end-of-input-delimited decoders (the PDU payloads with trailing lists / file data): %d found" % len(E))
    # (b) the only way a decoder may consult the end of its input is "take all that is left"
    # (read_to_end): a value decided by a short read (`read(..) == 0 => default`, fill_buf, bytes())
    # makes the decoder accept encodings the encoder never writes and depend on what follows
    nshort = 0
    for n, (f, own, calls) in sorted(info.items()):
        for b, t, kind, rd, tg, last in calls:
            if kind == "consult" and last not in ("read_to_end", "read_to_string"):
                nshort += 1
                yield bad("C05-L2", "%s:%s" % (short(f.impl_self_adt or f.norm) + "::" + f.name, last), at(f, t["span"]["line"]), "the decoder decides something from a short read (%s on `%s`): an absent field is accepted where the encoder always writes one, so accepted input is not canonical and the item is not self-delimiting" % (last, rd))
    yield ok("C05-L2", "decoders:no-short-read", "%d decoders" % len(D), "%d short-read consults" % nshort) if nshort == 0 else ok("C05-L2", "decoders:short-reads-reported", "-", "%d reported" % nshort, nontrivial=False)
    cnt = {}
    for n, (f, own, calls) in sorted(info.items()):
        for b, t, kind, rd, tg, last in calls:
            if kind != "sub" or not any(g in E for g in tg):
                continue
            g = [x for x in tg if x in E][0]
            base = "%s->%s" % (short(f.impl_self_adt or f.norm) + "::" + f.name, short(ctx.prog.by_norm[g].impl_self_adt or g))
            cnt[base] = cnt.get(base, 0) + 1
            key = base + ("#%d" % cnt[base] if cnt[base] > 1 else "")
            after = f.reachable(t["target"]) if t.get("target") is not None else set()
            later = [(b2, last2) for b2, t2, k2, rd2, tg2, last2 in calls if rd2 == rd and b2 in after]
            if later:
                yield bad("C05-L2", key, at(f, t["span"]["line"]), "%s decides a value from the end of its input (%s) but more is read from the same reader `%s` afterwards (%s at L%d): the item is not self-delimiting, written back to back it swallows or loses what follows" % (short(g), E[g], rd, later[0][1], f.blocks[later[0][0]]["term"]["span"]["line"]))
            else:
                yield ok("C05-L2", key, at(f, t["span"]["line"]), "tail position on reader `%s` (%s: %s)" % (rd, short(g), E[g]))


# ================================================================ C05-L6
def _delegates(ctx, f, what, codec_names, depth=0):
    """Codec types whose `what` (encode / decode) f hands nested items to; pass-through helpers that
    have `what` but are not codec types themselves (enums with encode only) are expanded."""
    out = set()
    for g in [f] + ctx.prog.closures_of(f):
        for b, t in g.all_calls():
            for tg in ctx.prog.call_targets(t):
                if tg.name != what or tg.crate != "cfdp_core" or not tg.impl_self_adt or tg.norm == f.norm:
                    continue
                nm = tg.impl_self_adt.split("::")[-1]
                if nm in codec_names:
                    out.add(nm)
                elif depth < 3:
                    out |= _delegates(ctx, tg, what, codec_names, depth + 1)
    return out


@rule("C05", "C05-L6", 30, "sibling agreement on nesting: the nested item types an encoder hands to their own encode are exactly those its decoder hands to their own decode (a decoder that re-implements an item's wire format by hand is not checked against that item's encoder)", also=("C15",))
def c05_l6(ctx):
    types = codec_types(ctx)
    if len(types) < 30:
        raise Anchor("C05-L6", "types with encode+decode (found %d)" % len(types))
    names = {p.split("::")[-1] for p in types}
    for path in sorted(types):
        fe, fd = types[path]["encode"], types[path]["decode"]
        tn = path.split("::")[-1]
        E = _delegates(ctx, fe, "encode", names)
        D = _delegates(ctx, fd, "decode", names)
        if E == D:
            yield ok("C05-L6", tn, at(fd), {"nested": sorted(E)}, nontrivial=bool(E))
        else:
            yield bad("C05-L6", tn, at(fd), "encode delegates to %s, decode to %s: %s" % (sorted(E), sorted(D), ("the decoder reads %s by hand instead of through its decode" % sorted(E - D)) if E - D else ("the encoder writes %s by hand instead of through its encode" % sorted(D - E))))


# ================================================================ C05-L7
VALUE_ALTERING = ("min", "max", "clamp", "saturating_sub", "saturating_add", "saturating_mul", "wrapping_sub", "wrapping_add", "wrapping_mul", "rem_euclid", "abs", "abs_diff", "checked_rem", "next_power_of_two", "truncate", "dedup", "retain", "sort", "sort_unstable", "sort_by_key", "reverse")


def is_value_altering_call(cal):
    last = cal.split("::")[-1]
    if last not in VALUE_ALTERING:
        return False
    return cal.startswith(("core::num", "std::cmp", "core::cmp", "std::vec::Vec", "alloc::vec::Vec", "core::slice", "alloc::slice")) or "Ord" in cal


@rule("C05", "C05-L7", 1, "encoders write what they are given: no encoder clamps, saturates, wraps, sorts or drops part of a field (an encoder that repairs values maps different PDUs to the same octets, so a corrupted PDU can re-encode to the received octets and pass the CRC)", also=("C15",))
def c05_l7(ctx):
    fns = [f for f in ctx.prog.by_norm.values() if f.crate == "cfdp_core" and (f.name == "encode" or (f.root and ctx.prog.by_norm.get(f.root) is not None and ctx.prog.by_norm[f.root].name == "encode")) and "pdu" in f.norm]
    if len(fns) < 30:
        raise Anchor("C05-L7", "encode functions of the PDU types (%d found)" % len(fns))
    n = 0
    for f in fns:
        for b, t in f.all_calls():
            d, r, _ = ctx.prog.callee_of(t)
            cal = r or d or ""
            if is_value_altering_call(cal):
                n += 1
                yield bad("C05-L7", "%s:%s" % (short(f.impl_self_adt or f.root or f.norm), cal.split("::")[-1]) + ("#%d" % n if n > 1 else ""), at(f, t["span"]["line"]), "%s in an encoder alters the value being written: distinct PDUs get the same encoding (decode(encode(v)) != v, and the CRC check over the re-encoding accepts a corrupted PDU)" % cal)
    # ... nor overwrites a field of the value it was given before writing it out
    for f in fns:
        if f.kind == "Closure":
            continue
        for b in f.live_blocks():
            for st in f.blocks[b]["stmts"]:
                if st["k"] == "assign" and st["place"]["local"] == 1 and st["place"]["proj"] and not any(e_.get("k") == "deref" for e_ in st["place"]["proj"][:1]) and f.arg_count >= 1:
                    names1 = [vn for vn, l_, pj in f.var_places if l_ == 1 and not pj]
                    if names1 and names1[0] == "self":
                        n += 1
                        yield bad("C05-L7", "%s:writes-%s" % (short(f.impl_self_adt or f.norm), f.place_str(st["place"])) + ("#%d" % n if n > 1 else ""), at(f, st["span"]["line"]), "the encoder overwrites %s of the value it encodes: what is written is not what was given (a PDU decoded with the other value re-encodes to the received octets, so the CRC comparison accepts it)" % f.place_str(st["place"]))
    yield ok("C05-L7", "encoders:verbatim", "%d encode functions" % len(fns), "%d value-altering calls" % n, nontrivial=(n == 0))


# ================================================================ C05-L8: presence of the EOF fault location
@rule("C05", "C05-L8", 2, "EndOfFile::decode reads the fault-location TLV on every condition other than 'No error' and on none else (CCSDS 727.0-B-5 table 5-6: omitted only for 'No error'); the encoder writes it whenever it is present, so any other rule drops or invents the field for some condition", also=("C15",))
def c05_l8(ctx):
    from df import Flow

    f = ctx.one("C05-L8", "<pdu::ops::EndOfFile as pdu::header::FSSEncode>::decode")
    ctys = {vn for vn, l, pj in f.var_places if not pj and "Condition" in (f.locals[l]["ty"] or "")}
    fl = Flow(ctx.prog, ctx.mods, f, lambda k: k[0] == "val" and k[1].split("@")[0].split(".")[0] in ctys, user_stop=True)

    def cond_state(w):
        """('is', {variants}) / ('not', {variants}) facts on a Condition-valued place in world w."""
        out = []
        for k, (pos, vs) in w:
            if k[0] == "val" and any(isinstance(v, str) and v == "NoError" for v in vs):
                out.append((pos, vs))
        return out

    reads = []
    for b, t in f.all_calls():
        d, r, _ = ctx.prog.callee_of(t)
        if (r or d or "").endswith("VariableID as pdu::header::PDUEncode>::decode") or ((r or d or "").endswith("::decode") and "VariableID" in (r or d or "")):
            reads.append((b, t))
    nones = []
    for b in f.live_blocks():
        for j, st in enumerate(f.blocks[b]["stmts"]):
            if st["k"] == "assign" and st["rv"]["k"] == "agg" and st["rv"].get("agg") == "adt" and st["rv"].get("variant") == "None" and "VariableID" in (st["place"].get("ty") or ""):
                nones.append((b, j, st))
    if not reads or not nones:
        raise Anchor("C05-L8", "the read of the fault location (VariableID::decode) and the `None` alternative in EndOfFile::decode")
    for i, (b, t) in enumerate(reads):
        ws = fl.at_term(b)
        good = bool(ws) and all(any((not pos and "NoError" in vs and len(vs) == 1) or (pos and "NoError" not in vs) for pos, vs in cond_state(w)) for w in ws)
        # ... and it is not restricted further: no other fact about the condition than `!= NoError`
        narrowed = any(any(pos or len(vs) > 1 for pos, vs in cond_state(w)) for w in ws)
        key = "EndOfFile::decode:fault-location-read" + ("#%d" % (i + 1) if i else "")
        if good and not narrowed:
            yield ok("C05-L8", key, at(f, t["span"]["line"]), "read under condition != NoError (and under nothing narrower)")
        elif not good:
            yield bad("C05-L8", key, at(f, t["span"]["line"]), "the fault location is read on a path where the condition may be 'No error' (an EOF without one is then rejected or mis-read)")
        else:
            yield bad("C05-L8", key, at(f, t["span"]["line"]), "the fault location is read only for some of the error conditions: for the others a well-formed EOF PDU loses its fault location")
    for i, (b, j, st) in enumerate(nones):
        ws = fl.at_stmt(b, j)
        good = bool(ws) and all(any(pos and set(vs) == {"NoError"} for pos, vs in cond_state(w)) for w in ws)
        key = "EndOfFile::decode:fault-location-absent" + ("#%d" % (i + 1) if i else "")
        if good:
            yield ok("C05-L8", key, at(f, st["span"]["line"]), "`None` only under condition == NoError")
        else:
            yield bad("C05-L8", key, at(f, st["span"]["line"]), "the decoder yields no fault location on a path where the condition is not known to be 'No error': an EOF PDU reporting an error loses its fault location (decode(encode(v)) != v)")


# ================================================================ C05-L9: decoded integers are unsigned
SIGNED = ("i8", "i16", "i32", "i64", "i128", "isize")


def is_signed_read(cal):
    last = cal.split("::")[-1]
    return ("ReadBytesExt" in cal or "byteorder" in cal) and (last in ("read_int", "read_int128", "read_i8", "read_i16", "read_i24", "read_i32", "read_i48", "read_i64", "read_i128") or last.startswith("read_i") and last.endswith("_into"))


@rule("C05", "C05-L9", 1, "every wire integer is decoded as an unsigned quantity: no decoder uses a signed read and none widens a signed value (a sign-extending read turns a small-flag size in the upper half of its range into a different 64-bit value)", also=("C06", "C15"))
def c05_l9(ctx):
    from rules_codec import decode_roots

    roots = decode_roots(ctx.prog)
    seen = ctx.prog.reach(roots)
    fns = [ctx.prog.by_norm[nm] for nm in sorted(seen) if ctx.prog.by_norm[nm].crate == "cfdp_core"]
    if len(fns) < 30:
        raise Anchor("C05-L9", "functions of the decode graph (%d found)" % len(fns))
    n = 0
    INT_W = {"u8": 8, "u16": 16, "u32": 32, "u64": 64, "u128": 128, "usize": 64, "i8": 8, "i16": 16, "i32": 32, "i64": 64, "i128": 128, "isize": 64}
    for f in fns:
        if f.name == "encode" or "encode" in (f.root or ""):
            continue
        for b, t in f.all_calls():
            d, r, _ = ctx.prog.callee_of(t)
            cal = r or d or ""
            if is_signed_read(cal) or (cal.split("::")[-1] in ("from_be_bytes", "from_le_bytes", "from_ne_bytes") and any(("::%s::" % sg) in cal or cal.startswith(sg + "::") or ("<%s>" % sg) in cal for sg in SIGNED)):
                n += 1
                yield bad("C05-L9", "%s:%s" % (short(f.impl_self_adt or f.root or f.norm), cal.split("::")[-1]) + ("#%d" % n if n > 1 else ""), at(f, t["span"]["line"]), "%s decodes a wire field as a signed integer: a value with the top bit set is sign-extended when widened (decode(encode(v)) != v for half of the field's range)" % cal)
        for b in f.live_blocks():
            for st in f.blocks[b]["stmts"]:
                if st["k"] != "assign" or st["rv"]["k"] != "cast" or not str(st["rv"].get("cast", "")).startswith("IntToInt"):
                    continue
                op = st["rv"]["op"]
                frm = op.get("place", {}).get("ty") if op.get("k") in ("copy", "move") else op.get("ty")
                to = st["rv"]["ty"]
                if frm in SIGNED and to in INT_W and INT_W[to] > INT_W.get(frm, 0) and not f.from_exp:
                    n += 1
                    yield bad("C05-L9", "%s:%s->%s" % (short(f.impl_self_adt or f.root or f.norm), frm, to) + ("#%d" % n if n > 1 else ""), at(f, st["span"]["line"]), "a signed %s is widened to %s in a decoder (sign extension)" % (frm, to))
    yield ok("C05-L9", "decoders:unsigned", "%d functions" % len(fns), "%d signed reads / sign-extending casts" % n, nontrivial=(n == 0))
