"""Helpers shared by the rule modules."""
import re
from core import ExprBuilder, callee_name, expr_str, short, strip_generics, walk, rel
from df import Inter, Flow, world_str

RECV = "cfdp_daemon::transaction::recv::RecvTransaction"
SEND = "cfdp_daemon::transaction::send::SendTransaction"


def impl_fns(ctx, adt):
    """Methods (not closures) of the inherent impl of an ADT."""
    return [f for f in ctx.prog.by_norm.values() if f.kind == "AssocFn" and f.impl_self_adt == adt and f.impl_trait is None]


def impl_and_closures(ctx, adt):
    out = []
    for f in impl_fns(ctx, adt):
        out.append(f)
        out.extend(ctx.prog.closures_of(f))
    return out


def is_module_private(fn):
    v = fn.vis or ""
    # `Restricted(DefId(0:57 ~ cfdp_daemon[..]::transaction::recv))` = private to module
    return v.startswith("Restricted") and "]::" in v


def entries_of(ctx, fns):
    """Methods callable from outside the set: non-private visibility or a caller
    outside the set. They start the interprocedural dataflow from TOP."""
    names = {f.norm for f in fns}
    out = []
    for f in fns:
        ext = any(g.norm not in names for g, _, _ in ctx.prog.callers(f))
        if ext or not is_module_private(f):
            out.append(f)
    return out


def inter(ctx, adt, track, tag, carry=None, user_stop=False):
    key = ("inter", adt, tag)
    if key not in ctx.cache:
        fns = impl_fns(ctx, adt)
        ctx.cache[key] = Inter(ctx.prog, ctx.mods, fns, entries_of(ctx, fns), track, carry=carry, user_stop=user_stop)
    return ctx.cache[key]


def call_sites(fns, pred, prog):
    """(fn, block, term, declared, resolved) for calls whose callee satisfies pred."""
    for f in fns:
        for b, t in f.all_calls():
            d, r, _ = prog.callee_of(t)
            if pred(d or "", r or ""):
                yield f, b, t, d, r


def ends(name):
    def p(d, r):
        return d == name or r == name or d.endswith("::" + name) or r.endswith("::" + name)

    return p


def agg_sites(fns, adt_suffix, variant=None):
    """(fn, block, idx, stmt) of aggregate constructions of an ADT (optionally one variant)."""
    for f in fns:
        for b in f.live_blocks():
            for j, s in enumerate(f.blocks[b]["stmts"]):
                if s["k"] != "assign":
                    continue
                rv = s["rv"]
                if rv["k"] == "agg" and rv["agg"] == "adt":
                    a = strip_generics(rv["adt"])
                    if a == adt_suffix or a.endswith("::" + adt_suffix):
                        if variant is None or rv["variant"] == variant:
                            yield f, b, j, s


def field_writes(fns, place_prefix):
    """(fn, block, idx, stmt|term, place_str) for writes to places equal to or under a prefix."""
    for f in fns:
        for b in f.live_blocks():
            blk = f.blocks[b]
            for j, s in enumerate(blk["stmts"]):
                if s["k"] == "assign":
                    ps = f.place_str(s["place"])
                    if ps == place_prefix or ps.startswith(place_prefix + ".") or ps.startswith(place_prefix + "@"):
                        yield f, b, j, s, ps
            t = blk["term"]
            if t["k"] == "call":
                ps = f.place_str(t["dest"])
                if ps == place_prefix or ps.startswith(place_prefix + "."):
                    yield f, b, -1, t, ps


def all_worlds_satisfy(worlds, pred):
    """(True, None) or (False, offending world)."""
    for w in worlds:
        if not pred(dict(w)):
            return False, w
    return True, None


def val_in(d, place, allowed):
    v = d.get(("val", place))
    if v is None:
        return False
    pos, s = v
    return pos and s <= set(allowed)


def val_not(d, place, excluded):
    """World guarantees place ∉ excluded."""
    v = d.get(("val", place))
    if v is None:
        return False
    pos, s = v
    if pos:
        return not (s & set(excluded))
    return set(excluded) <= s


def call_key(d, name_suffix, value, arg_contains=None):
    """World contains a predicate-call key for callee *name_suffix* with the value."""
    for k, (pos, s) in d.items():
        if k[0] == "call" and (k[1] == name_suffix or k[1].endswith("::" + name_suffix)):
            if arg_contains and not any(arg_contains in a for a in k[2]):
                continue
            if pos and s == frozenset([1 if value else 0]):
                return True
    return False


def origin_leaves(e):
    """Leaves of an expression after peeling refs/casts/phi/transparent calls."""
    from core import is_transparent

    out = []
    st = [e]
    while st:
        x = st.pop()
        k = x[0]
        if k == "ref":
            st.append(x[2])
        elif k == "cast":
            st.append(x[2])
        elif k == "phi":
            st.extend(x[2])
        elif k == "call" and is_transparent(x) and x[3]:
            st.append(x[3][0])
        elif k == "proj" and x[1][0] in ("call", "ref", "proj", "phi"):
            # projection out of a transparent wrapper keeps the origin
            inner = x[1]
            if inner[0] == "call" and is_transparent(inner) and inner[3]:
                st.append(("proj", inner[3][0], x[2], x[3]) if inner[3][0][0] != "place" else ("place", inner[3][0][1] + x[2], x[3]))
            else:
                out.append(x)
        else:
            out.append(x)
    return out


def backslice(prog, fn, e, max_nodes=4000, user_stop=False):
    """Backward data slice of expression e inside fn: all sub-expressions, following
    named variables to every one of their definitions (and partial writes).
    Returns (calls, places, nodes)."""
    eb = ExprBuilder(prog, fn, user_stop=user_stop)
    names = {vn: l for vn, l, proj in fn.var_places if not proj}
    seen_vars = set()
    calls = []
    places = set()
    nodes = []
    st = [e]
    while st and len(nodes) < max_nodes:
        x = st.pop()
        for y in walk(x):
            nodes.append(y)
            if y[0] == "call":
                calls.append(y)
            elif y[0] == "place":
                places.add(y[1])
                root = y[1]
                for ch in ".@[":
                    root = root.split(ch)[0]
                if root in names and root not in seen_vars:
                    seen_vars.add(root)
                    l = names[root]
                    for d in fn.defs(l):
                        if d[0] in ("assign", "call", "yield"):
                            st.append(eb._def_expr(d, 0, (l,)))
                        elif d[0] == "partial":
                            s = d[3]
                            if isinstance(s, dict) and s.get("k") == "assign":
                                st.append(eb.rvalue(s["rv"]))
    return calls, places, nodes


def local_uses(fn, local):
    """Statements/terminators that read `local` (as an operand or in a place)."""
    out = []

    def op_reads(o):
        return o.get("k") in ("copy", "move") and (o["place"]["local"] == local or any(e.get("k") == "index" and e.get("local") == local for e in o["place"]["proj"]))

    def rv_reads(rv):
        k = rv["k"]
        if k in ("use", "cast", "repeat"):
            return op_reads(rv["op"])
        if k in ("ref", "rawptr", "discr"):
            return rv["place"]["local"] == local
        if k == "binop":
            return op_reads(rv["a"]) or op_reads(rv["b"])
        if k == "unop":
            return op_reads(rv["a"])
        if k == "agg":
            return any(op_reads(o) for o in rv["ops"])
        return False

    for b in fn.live_blocks():
        blk = fn.blocks[b]
        for j, s in enumerate(blk["stmts"]):
            if s["k"] == "assign" and rv_reads(s["rv"]):
                out.append(("stmt", b, j, s))
        t = blk["term"]
        if t["k"] == "call":
            if any(op_reads(a) for a in t["args"]) or op_reads(t["func"]):
                out.append(("call", b, -1, t))
        elif t["k"] == "switch" and op_reads(t["discr"]):
            out.append(("switch", b, -1, t))
        elif t["k"] == "assert" and op_reads(t["cond"]):
            out.append(("assert", b, -1, t))
    return out


def ref_target(fn, local, depth=0):
    """The place a reference-typed local points to when it is defined once as `&[mut] P` (through moves and
    reborrows `&mut *r`), else None."""
    if depth > 8:
        return None
    # writes through the reference (`*r = ..`) do not re-point it
    ds = [d for d in fn.defs(local) if not (d[0] == "partial" and d[3].get("k") == "assign" and d[3]["place"]["proj"][0]["k"] == "deref")]
    if len(ds) != 1 or ds[0][0] != "assign":
        return None
    rv = ds[0][3]
    if rv["k"] == "use" and rv["op"].get("k") in ("move", "copy") and not rv["op"]["place"]["proj"]:
        return ref_target(fn, rv["op"]["place"]["local"], depth + 1)
    if rv["k"] == "ref":
        tp = rv["place"]
        if not tp["proj"]:
            return tp
        if len(tp["proj"]) == 1 and tp["proj"][0]["k"] == "deref":
            return ref_target(fn, tp["local"], depth + 1)
        return tp
    return None


def flows_to_place(fn, local, target_str, depth=0, seen=None):
    """Does the value of `local` flow (through assignments and arithmetic) into the
    place named target_str?"""
    seen = seen if seen is not None else set()
    if local in seen or depth > 12:
        return False
    seen.add(local)
    for kind, b, j, s in local_uses(fn, local):
        if kind == "stmt":
            ps = fn.place_str(s["place"])
            if ps == target_str:
                return True
            pj = s["place"]["proj"]
            if pj and pj[0]["k"] == "deref":
                # `*r op= x` with `r = &mut target` (an accumulator handed to a helper by reference)
                tp = ref_target(fn, s["place"]["local"]) if len(pj) == 1 else None
                if tp is not None:
                    if fn.place_str(tp) == target_str:
                        return True
                    if not tp["proj"] and flows_to_place(fn, tp["local"], target_str, depth + 1, seen):
                        return True
            if not s["place"]["proj"] and flows_to_place(fn, s["place"]["local"], target_str, depth + 1, seen):
                return True
        elif kind == "call":
            # value passed to a call: flows into the call's destination
            ps = fn.place_str(s["dest"])
            if ps == target_str:
                return True
            if not s["dest"]["proj"] and flows_to_place(fn, s["dest"]["local"], target_str, depth + 1, seen):
                return True
    return False


def simp(e):
    """Simplify an expression for provenance comparisons: peel `?` plumbing
    (`Try::branch(x)@Continue.0`, `map_err(x, _)`), references, clones and other
    transparent calls."""
    from core import is_transparent

    if not isinstance(e, tuple) or not e:
        return e
    k = e[0]
    if k == "ref":
        return simp(e[2])
    if k == "proj":
        base = simp(e[1])
        pj = e[2]
        # drop the `?` continuation projection
        pj2 = pj.replace("@Continue.0", "").replace("@Ready.0", "")

        while pj2.startswith(".*"):
            pj2 = pj2[2:]
        if not pj2:
            return base
        if base[0] == "place":
            return ("place", base[1] + pj2, e[3])
        return ("proj", base, pj2, e[3])
    if k == "call":
        nm = callee_name(e) or ""
        last = nm.split("::")[-1]
        if (is_transparent(e) or last in ("map_err", "ok_or", "ok_or_else")) and e[3]:
            return simp(e[3][0])
        return ("call", e[1], e[2], tuple(simp(a) for a in e[3]), e[4], e[5])
    if k == "cast":
        return ("cast", e[1], simp(e[2]), e[3])
    if k == "binop":
        return ("binop", e[1], simp(e[2]), simp(e[3]))
    if k == "unop":
        return ("unop", e[1], simp(e[2]))
    if k == "agg":
        return e[:5] + (tuple(simp(a) for a in e[5]),)
    if k == "phi":
        return ("phi", e[1], tuple(simp(a) for a in e[2]))
    if k == "discr":
        return ("discr", simp(e[1]))
    return e


def sstr(e):
    return expr_str(simp(e))


def var_def_strs(prog, fn, name, user_stop=True):
    eb = ExprBuilder(prog, fn, user_stop=user_stop)
    return [sstr(x) for x in eb.var_defs(name)]


def bound_pdu_field(eb, e, payload, field):
    """`e` is the field `field` of a PDU bound from `payload` (e.g. "@Finished.0"): either `<var>.field` with
    var bound to the payload, or a variable bound by a destructuring pattern to that field of the payload.
    Returns the name the value hangs on (var), else None."""
    from core import expr_str

    txt = expr_str(simp(e))
    m = re.match(r"^(\w+)\.%s$" % re.escape(field), txt)
    if m:
        ds = eb.var_defs(m.group(1))
        if ds and all(payload in expr_str(x) for x in ds):
            return m.group(1)
    m2 = re.match(r"^(\w+)$", txt)
    if m2:
        ds = eb.var_defs(m2.group(1))
        if ds and all(payload in expr_str(x) and expr_str(simp(x)).endswith("." + field) for x in ds):
            return m2.group(1)
    return None
