"""Helpers shared by the rule modules."""
from core import ExprBuilder, callee_name, expr_str, short, strip_generics, walk, rel
from df import Inter, Flow, world_str

RECV = "cfdp_daemon::transaction::recv::RecvTransaction"
SEND = "cfdp_daemon::transaction::send::SendTransaction"


def impl_fns(ctx, adt):
    """Methods (not closures) of the inherent impl of an ADT."""
    return [f for f in ctx.prog.by_norm.values() if f.kind == "AssocFn" and f.impl_self_adt == adt and f.impl_trait is None]


def impl_and_closures(ctx, adt):
    out = []
    for f in impl_fns(ctx, adt):
        out.append(f)
        out.extend(ctx.prog.closures_of(f))
    return out


def is_module_private(fn):
    v = fn.vis or ""
    # `Restricted(DefId(0:57 ~ cfdp_daemon[..]::transaction::recv))` = private to module
    return v.startswith("Restricted") and "]::" in v


def entries_of(ctx, fns):
    """Methods callable from outside the set: non-private visibility or a caller
    outside the set. They start the interprocedural dataflow from TOP."""
    names = {f.norm for f in fns}
    out = []
    for f in fns:
        ext = any(g.norm not in names for g, _, _ in ctx.prog.callers(f))
        if ext or not is_module_private(f):
            out.append(f)
    return out


def inter(ctx, adt, track, tag, carry=None):
    key = ("inter", adt, tag)
    if key not in ctx.cache:
        fns = impl_fns(ctx, adt)
        ctx.cache[key] = Inter(ctx.prog, ctx.mods, fns, entries_of(ctx, fns), track, carry=carry)
    return ctx.cache[key]


def call_sites(fns, pred, prog):
    """(fn, block, term, declared, resolved) for calls whose callee satisfies pred."""
    for f in fns:
        for b, t in f.all_calls():
            d, r, _ = prog.callee_of(t)
            if pred(d or "", r or ""):
                yield f, b, t, d, r


def ends(name):
    def p(d, r):
        return d == name or r == name or d.endswith("::" + name) or r.endswith("::" + name)

    return p


def agg_sites(fns, adt_suffix, variant=None):
    """(fn, block, idx, stmt) of aggregate constructions of an ADT (optionally one variant)."""
    for f in fns:
        for b in f.live_blocks():
            for j, s in enumerate(f.blocks[b]["stmts"]):
                if s["k"] != "assign":
                    continue
                rv = s["rv"]
                if rv["k"] == "agg" and rv["agg"] == "adt":
                    a = strip_generics(rv["adt"])
                    if a == adt_suffix or a.endswith("::" + adt_suffix):
                        if variant is None or rv["variant"] == variant:
                            yield f, b, j, s


def field_writes(fns, place_prefix):
    """(fn, block, idx, stmt|term, place_str) for writes to places equal to or under a prefix."""
    for f in fns:
        for b in f.live_blocks():
            blk = f.blocks[b]
            for j, s in enumerate(blk["stmts"]):
                if s["k"] == "assign":
                    ps = f.place_str(s["place"])
                    if ps == place_prefix or ps.startswith(place_prefix + ".") or ps.startswith(place_prefix + "@"):
                        yield f, b, j, s, ps
            t = blk["term"]
            if t["k"] == "call":
                ps = f.place_str(t["dest"])
                if ps == place_prefix or ps.startswith(place_prefix + "."):
                    yield f, b, -1, t, ps


def all_worlds_satisfy(worlds, pred):
    """(True, None) or (False, offending world)."""
    for w in worlds:
        if not pred(dict(w)):
            return False, w
    return True, None


def val_in(d, place, allowed):
    v = d.get(("val", place))
    if v is None:
        return False
    pos, s = v
    return pos and s <= set(allowed)


def val_not(d, place, excluded):
    """World guarantees place ∉ excluded."""
    v = d.get(("val", place))
    if v is None:
        return False
    pos, s = v
    if pos:
        return not (s & set(excluded))
    return set(excluded) <= s


def call_key(d, name_suffix, value, arg_contains=None):
    """World contains a predicate-call key for callee *name_suffix* with the value."""
    for k, (pos, s) in d.items():
        if k[0] == "call" and (k[1] == name_suffix or k[1].endswith("::" + name_suffix)):
            if arg_contains and not any(arg_contains in a for a in k[2]):
                continue
            if pos and s == frozenset([1 if value else 0]):
                return True
    return False


def origin_leaves(e):
    """Leaves of an expression after peeling refs/casts/phi/transparent calls."""
    from core import is_transparent

    out = []
    st = [e]
    while st:
        x = st.pop()
        k = x[0]
        if k == "ref":
            st.append(x[2])
        elif k == "cast":
            st.append(x[2])
        elif k == "phi":
            st.extend(x[2])
        elif k == "call" and is_transparent(x) and x[3]:
            st.append(x[3][0])
        elif k == "proj" and x[1][0] in ("call", "ref", "proj", "phi"):
            # projection out of a transparent wrapper keeps the origin
            inner = x[1]
            if inner[0] == "call" and is_transparent(inner) and inner[3]:
                st.append(("proj", inner[3][0], x[2], x[3]) if inner[3][0][0] != "place" else ("place", inner[3][0][1] + x[2], x[3]))
            else:
                out.append(x)
        else:
            out.append(x)
    return out
