"""One-instance mutants for the thorough tier's self-test: each is a small edit of /repo
(applied to a scratch copy only) that breaks the structural clause a rule decides while still
compiling; the rule must name it. `old` must occur exactly once in `file` - if the tree
under test changed so that it no longer does, the mutant is skipped and recorded."""

R = "cfdp-daemon/src/transaction/recv.rs"
S = "cfdp-daemon/src/transaction/send.rs"
L = "cfdp-daemon/src/lib.rs"
SEG = "cfdp-daemon/src/segments.rs"
T = "cfdp-daemon/src/timer.rs"
TR = "cfdp-daemon/src/transport.rs"
FS = "cfdp-core/src/filestore.rs"
PDU = "cfdp-core/src/pdu.rs"
HDR = "cfdp-core/src/pdu/header.rs"
OPS = "cfdp-core/src/pdu/ops.rs"
UOPS = "cfdp-core/src/pdu/user_ops.rs"
PFS = "cfdp-core/src/pdu/filestore.rs"

MUTANTS = {
    "C01": [
        {"id": "no-truncate", "file": R, "old": "File::options().create(true).write(true).truncate(true),", "new": "File::options().create(true).write(true),", "rule": "C01-T"},
        {"id": "publish-before-verify", "file": R, "old": "            if !self.verify_checksum(checksum)?\n                && !self.handle_fault(Condition::FileChecksumFailure)?\n            {\n                return Ok(());\n            }\n", "new": "            let _ = checksum;\n", "rule": "C01-V"},
        {"id": "complete-without-completeness", "file": R, "old": "                    Some(size) => self.saved_segments.is_complete(size),\n                    None => false,", "new": "                    Some(_size) => true,\n                    None => false,", "rule": "C01-K"},
        {"id": "record-other-range", "file": R, "old": ".merge((offset, offset + file_data.len() as u64));", "new": ".merge((offset, offset + length as u64 + 1));", "rule": "C01-R"},
        {"id": "second-writer", "file": R, "old": "        self.file_handle = Some(self.filestore.open_tempfile()?);", "new": "        self.file_handle = Some(self.filestore.open(\"staging\", File::options().create(true).write(true))?);", "rule": "C01-W"},
    ],
    "C04": [
        {'id': 'new-own-error', 'file': 'cfdp-daemon/src/transaction/recv.rs', 'old': '    fn send_naks(&mut self, permit: Permit<(VariableID, PDU)>) -> TransactionResult<()> {\n', 'new': '    fn send_naks(&mut self, permit: Permit<(VariableID, PDU)>) -> TransactionResult<()> {\n        if self.naks.is_empty() {\n            return Err(TransactionError::MissingNak);\n        }\n', 'rule': 'C04-E'},
        {"id": "no-staging-file-after-delivery", "file": R, "old": "        if self.file_handle.is_none() {\n            self.initialize_tempfile()?\n", "new": "        if self.file_handle.is_none() && self.recv_state == RecvState::ReceiveData {\n            self.initialize_tempfile()?\n", "rule": "C04-H2"},
        {"id": "finalize-in-any-phase", "file": R, "old": "        if self.recv_state == RecvState::ReceiveData\n            && self.metadata.is_some()\n            && self.eof_received()", "new": "        if self.metadata.is_some()\n            && self.eof_received()", "rule": "C04-F"},
        {"id": "stay-in-phase", "file": R, "old": "            self.finalize_receive()?;\n            self.recv_state = RecvState::Finished;\n            self.prepare_finished(None);", "new": "            self.finalize_receive()?;\n            self.prepare_finished(None);", "rule": "C04-P"},
        {"id": "sender-invents-complete", "file": S, "old": "                            self.delivery_code = finished.delivery_code;\n                            self.file_status = finished.file_status;", "new": "                            self.delivery_code = DeliveryCode::Complete;\n                            self.file_status = finished.file_status;", "rule": "C04-S"},
    ],
    "C05": [
        {'id': 'eof-fault-location-rule', 'file': 'cfdp-core/src/pdu/ops.rs', 'old': '            Condition::NoError => None,\n            _ => {\n                let type_code = {', 'new': '            Condition::NoError | Condition::UnsupportedChecksumType => None,\n            _ => {\n                let type_code = {', 'rule': 'C05-L8'},
        {"id": "decoder-mask-narrow", "file": OPS, "old": "let possible_condition = (u8_buff[0] & 0xF0) >> 4;\n            Condition::from_u8(possible_condition)\n                .ok_or(PDUError::InvalidCondition(possible_condition))?\n        };\n\n        let delivery_code", "new": "let possible_condition = (u8_buff[0] & 0x70) >> 4;\n            Condition::from_u8(possible_condition)\n                .ok_or(PDUError::InvalidCondition(possible_condition))?\n        };\n\n        let delivery_code", "rule": "C05-L1"},
        {"id": "encoder-shift", "file": OPS, "old": "let first_byte = ((self.directive as u8) << 4) | (self.directive_subtype_code as u8);", "new": "let first_byte = ((self.directive as u8) << 3) | (self.directive_subtype_code as u8);", "rule": "C05-L1"},
        {"id": "tag-crosswired", "file": OPS, "old": "            Self::FlowLabel(_) => MetadataTLVFieldCode::FlowLabel,", "new": "            Self::FlowLabel(_) => MetadataTLVFieldCode::EntityID,", "rule": "C05-L4"},
        {"id": "length-byte-forgotten", "file": OPS, "old": "        // message len\n        1\n        // message\n        + self.message_text.len() as u16", "new": "        // message\n        self.message_text.len() as u16", "rule": "C05-L3"},
        {"id": "id-mask-two-bits", "file": UOPS, "old": "impl PDUEncode for RemoteSuspendRequest {\n    type PDUType = Self;\n\n    fn encoded_len(&self) -> u16 {\n        1 + self.source_entity_id.encoded_len() + self.transaction_sequence_number.encoded_len()\n    }\n\n    fn encode(self) -> Vec<u8> {\n        let mut buffer: Vec<u8> = vec![];\n\n        let first_byte = (((self.source_entity_id.encoded_len() as u8 - 1u8) & 0x7) << 4)", "new": "impl PDUEncode for RemoteSuspendRequest {\n    type PDUType = Self;\n\n    fn encoded_len(&self) -> u16 {\n        1 + self.source_entity_id.encoded_len() + self.transaction_sequence_number.encoded_len()\n    }\n\n    fn encode(self) -> Vec<u8> {\n        let mut buffer: Vec<u8> = vec![];\n\n        let first_byte = (((self.source_entity_id.encoded_len() as u8 - 1u8) & 0x3) << 4)", "rule": "C05-L1"},
    ],
    "C06": [
        {"id": "unwrap-on-input", "file": OPS, "old": "        let possible_status = u8_buff[0] & 0x3;\n            FileStatusCode::from_u8(possible_status)\n                .ok_or(PDUError::InvalidFileStatus(possible_status))?", "new": "        let possible_status = u8_buff[0] & 0x7;\n            FileStatusCode::from_u8(possible_status).unwrap()", "rule": "C06-P1"},
        {"id": "narrow-add", "file": OPS, "old": "        let length = u8_buff[0] as usize + 1;", "new": "        let length = (u8_buff[0] + 1) as usize;", "rule": "C06-P1"},
        {"id": "wide-allocation", "file": HDR, "old": "    let mut vector = vec![0u8; length as usize];", "new": "    let mut vector = vec![0u8; (length as usize) << 24];", "rule": "C06-P3"},
    ],
    "C07": [
        {"id": "suspend-drops-source-handle", "file": S, "old": "        self.timer.ack.pause();\n        self.timer.inactivity.pause();\n        self.state = TransactionState::Suspended;\n", "new": "        self.timer.ack.pause();\n        self.timer.inactivity.pause();\n        self.file_handle = None;\n        self.state = TransactionState::Suspended;\n", "rule": "C07-S12"},
        {"id": "length-from-other-flag", "file": S, "old": "        let payload = PDUPayload::FileData(data);\n\n        let payload_len: u16 = payload.encoded_len(self.config.file_size_flag);", "new": "        let payload = PDUPayload::FileData(data);\n\n        let payload_len: u16 = payload.encoded_len(cfdp_core::pdu::FileSizeFlag::Small);", "rule": "C07-S1"},
        {"id": "no-cursor-restore", "file": S, "old": "                        handle\n                            .seek(SeekFrom::Start(current_pos))\n                            .map_err(FileStoreError::IO)?;\n                        Ok(())", "new": "                        let _ = (handle, current_pos);\n                        Ok(())", "rule": "C07-S3"},
        {"id": "eof-size-from-progress", "file": S, "old": "                file_size: self.metadata.file_size,\n                fault_location,", "new": "                file_size: self.sent_file_size,\n                fault_location,", "rule": "C07-S5"},
        {"id": "names-crosswired", "file": S, "old": "            source_filename: self.metadata.source_filename.clone(),\n            destination_filename: self.metadata.destination_filename.clone(),", "new": "            source_filename: self.metadata.destination_filename.clone(),\n            destination_filename: self.metadata.source_filename.clone(),", "rule": "C07-S5"},
        {"id": "wrong-direction", "file": R, "old": "            let header = self.get_header(\n                Direction::ToSender,\n                PDUType::FileDirective,\n                payload_len,\n                // TODO add segmentation Control ability", "new": "            let header = self.get_header(\n                Direction::ToReceiver,\n                PDUType::FileDirective,\n                payload_len,\n                // TODO add segmentation Control ability", "rule": "C07-S1"},
    ],
    "C08": [
        {'id': 'scope-from-first', 'file': 'cfdp-daemon/src/transaction/recv.rs', 'old': '            .map(|sr| sr.start_offset)\n            .min()', 'new': '            .map(|sr| sr.start_offset)\n            .next()', 'rule': 'C08-N2'},
        {"id": "scope-from-wrong-end", "file": R, "old": "            .map(|sr| sr.start_offset)\n            .min()", "new": "            .map(|sr| sr.end_offset)\n            .min()", "rule": "C08-N2"},
        {"id": "unbounded-requests", "file": R, "old": "        let segment_requests: Vec<SegmentRequestForm> = self.naks.drain(..n).collect();", "new": "        let _ = n;\n        let segment_requests: Vec<SegmentRequestForm> = self.naks.drain(..).collect();", "rule": "C08-N2"},
        {"id": "raw-offsets", "file": R, "old": "                                } else if offset > prev_end {", "new": "                                } else if offset != prev_end {", "rule": "C08-N1"},
        {"id": "marker-without-test", "file": R, "old": "        if self.metadata.is_none() {\n            naks.push_back((0_u64, 0_u64).into());\n        }", "new": "        naks.push_back((0_u64, 0_u64).into());", "rule": "C08-N1"},
    ],
    "C09": [
        {"id": "count-decides-completeness", "file": R, "old": "                !self.saved_segments.is_complete(file_size)\n", "new": "                self.received_file_size < file_size\n", "rule": "C09-G10"},
        {"id": "overlap-dropped", "file": SEG, "old": "                                    v[k - 1].1 = seg.1;\n                                    newly_received -= merge(v, k - 1);", "new": "                                    v[k - 1].1 = seg.1;\n                                    merge(v, k - 1);", "rule": "C09-G1"},
        {"id": "complete-ignores-start", "file": SEG, "old": "            [(start, end)] => *start == 0 && *end == size,", "new": "            [(_start, end)] => *end == size,", "rule": "C09-G2"},
        {"id": "early-window-push", "file": SEG, "old": "            if *s >= end {\n                // the rest of the window, if any, is pushed after the loop\n                break;", "new": "            if *s >= end {\n                gaps.push((pointer, end));\n                pointer = end;\n                break;", "rule": "C09-G3"},
        {"id": "swap-remove", "file": SEG, "old": "        v.remove(k + 1);", "new": "        v.swap_remove(k + 1);", "rule": "C09-G4"},
        {"id": "no-clamp", "file": SEG, "old": "                    std::cmp::max(v[k - 1].1, start)", "new": "                    v[k - 1].1", "rule": "C09-G5"},
    ],
    "C10": [
        {"id": "cancel-ignored-when-finished", "file": R, "old": "        debug!(\"Transaction {0} canceling.\", self.id());\n        self.condition = Condition::CancelReceived;\n", "new": "        if self.recv_state == RecvState::Finished {\n            return Ok(());\n        }\n        self.condition = Condition::CancelReceived;\n", "rule": "C10-K11"},
        {"id": "cancelled-runs-handler", "file": S, "old": "            SendState::Cancelled => {\n                if self.timer.inactivity.limit_reached() {\n                    self.abandon();\n                }", "new": "            SendState::Cancelled => {\n                if self.timer.inactivity.limit_reached() {\n                    self.handle_fault(Condition::InactivityDetected)?;\n                }", "rule": "C10-K4"},
        {"id": "finalize-after-cancel", "file": R, "old": "        if self.recv_state == RecvState::ReceiveData\n            && self.metadata.is_some()\n            && self.eof_received()", "new": "        if self.recv_state != RecvState::Finished\n            && self.metadata.is_some()\n            && self.eof_received()", "rule": "C04-F"},
        {"id": "error-eof-finalizes", "file": R, "old": "                                } else {\n                                    // Any other condition is essentially a\n                                    // CANCEL operation\n                                    self._cancel();\n                                }\n                                Ok(())", "new": "                                } else {\n                                    self.check_finished()?;\n                                }\n                                Ok(())", "rule": "C10-K3"},
    ],
    "C11": [
        {"id": "reap-by-destination", "file": L, "old": "            transaction.send_report(None)?;\n            Ok(transaction.id())", "new": "            transaction.send_report(None)?;\n            Ok(TransactionID(transaction.id().1, transaction.id().1))", "rule": "C11-I5"},
        {"id": "fatal-unable-to-resume", "file": L, "old": "                        Err(error @ DaemonError::UnableToResume(_))  => {", "new": "                        Err(error @ DaemonError::SpawnSend(_))  => {", "rule": "C11-I1"},
        {"id": "index-routing-map", "file": L, "old": "                    if let Some(transport) = self.transport_tx_map.get(&transport_entity).cloned() {\n                        let (id, new_channel, handle)", "new": "                    if let Some(transport) = Some(self.transport_tx_map[&transport_entity].clone()) {\n                        let (id, new_channel, handle)", "rule": "C11-I2"},
        {"id": "second-counter-writer", "file": L, "old": "                    self.transaction_handles.push(handle);\n                    self.transaction_channels.insert(id, sender);", "new": "                    self.transaction_handles.push(handle);\n                    self.sequence_num.increment();\n                    self.transaction_channels.insert(id, sender);", "rule": "C11-I3"},
    ],
    "C12": [
        {"id": "pass-through", "file": FS, "old": "        let relative = path.strip_prefix(&self.root_path).unwrap_or(path);\n        self.root_path.join(normalize_path(relative))", "new": "        if path.starts_with(&self.root_path) {\n            return path.to_path_buf();\n        }\n        self.root_path.join(normalize_path(path))", "rule": "C12-R1"},
    ],
    "C13": [
        {'id': 'rename-any-object', 'file': 'cfdp-core/src/filestore.rs', 'old': '            FileStoreAction::RenameFile => match path.is_file() {', 'new': '            FileStoreAction::RenameFile => match path.exists() {', 'rule': 'C13-Q1'},
        {"id": "success-without-performing", "file": FS, "old": "                false => FileStoreStatus::DenyFile(DenyStatus::NotAllowed),", "new": "                false => FileStoreStatus::DenyFile(DenyStatus::Successful),", "rule": "C13-Q1"},
        {"id": "crosswired-not-performed", "file": PFS, "old": "            FileStoreAction::DenyFile => Self::DenyFile(DenyStatus::NotPerformed),", "new": "            FileStoreAction::DenyFile => Self::DenyDirectory(DenyStatus::NotPerformed),", "rule": "C13-Q1"},
        {"id": "fail-rest-reset", "file": R, "old": "                        true => FileStoreResponse::not_performed(request),", "new": "                        true => {\n                            fail_rest = false;\n                            FileStoreResponse::not_performed(request)\n                        }", "rule": "C13-Q2"},
        {"id": "requests-reversed", "file": R, "old": "                for request in &meta.filestore_requests {", "new": "                for request in meta.filestore_requests.iter().rev() {", "rule": "C13-Q2"},
        {"id": "skipped-not-reported", "file": R, "old": "                    out.push(response);", "new": "                    if !fail_rest || response.action_and_status.is_fail() {\n                        out.push(response);\n                    }", "rule": "C13-Q2"},
        {"id": "flag-not-sticky", "file": R, "old": "                            fail_rest = rep.action_and_status.is_fail();", "new": "                            fail_rest = rep.action_and_status.is_fail() && out.is_empty();", "rule": "C13-Q2"},
        {"id": "responses-taken", "file": R, "old": "                filestore_response: self.filestore_response.clone(),\n                fault_location,", "new": "                filestore_response: std::mem::take(&mut self.filestore_response),\n                fault_location,", "rule": "C13-Q3"},
    ],
    "C14": [
        {'id': 'full-buffer-aligned', 'file': 'cfdp-core/src/filestore.rs', 'old': '                    while position != 0 {', 'new': '                    while position != 0 && buffer.len() < 8192 {', 'rule': 'C14-A'},
        {"id": "position-not-carried", "file": FS, "old": "                let mut position: u32 = 0;\n                'outer: loop {", "new": "                'outer: loop {\n                    let mut position: u32 = 0;", "rule": "C14-S"},
        {"id": "null-not-zero", "file": FS, "old": "            ChecksumType::Null => Ok(0_u32),", "new": "            ChecksumType::Null => Ok(1_u32),", "rule": "C14-N"},
        {"id": "consume-less", "file": FS, "old": "                    reader.consume(len);", "new": "                    reader.consume(len - (len & 3));", "rule": "C14-C"},
    ],
    "C15": [
        {'id': 'accept-complement', 'file': 'cfdp-core/src/pdu.rs', 'old': '                match crc == crc16 {', 'new': '                match crc == crc16 || crc == !crc16 {', 'rule': 'C15-M'},
        {"id": "crc-bypass", "file": PDU, "old": "                match crc == crc16 {", "new": "                match crc == crc16 || crc16 == 0 {", "rule": "C15-M"},
        {"id": "crc-of-modified-copy", "file": PDU, "old": "let input_pdu = received_pdu.clone();", "new": "let mut input_pdu = received_pdu.clone(); input_pdu.header.crc_flag = CRCFlag::NotPresent;", "rule": "C15-M"},
        {"id": "width-disagree", "file": PDU, "old": "                    temp.truncate(temp.len() - 2);", "new": "                    temp.truncate(temp.len() - 1);", "rule": "C15-W"},
    ],
    "C16": [
        {"id": "whole-buffer", "file": TR, "old": "&self.buffer[..n]", "new": "&self.buffer[..]", "rule": "C16-D"},
    ],
    "C17": [
        {'id': 'cancel-says-carry-on', 'file': 'cfdp-daemon/src/transaction/recv.rs', 'old': '            FaultHandlerAction::Cancel => {\n                self._cancel();\n                Ok(false)', 'new': '            FaultHandlerAction::Cancel => {\n                self._cancel();\n                Ok(true)', 'rule': 'C17-H9'},
        {'id': 'nak-keeps-count', 'file': 'cfdp-daemon/src/transaction/send.rs', 'old': '        if self.send_state == SendState::SendEof {\n            // a PDU from the peer is progress: clear the expiration count', 'new': '        if self.send_state == SendState::SendEof && !matches!(pdu.payload, PDUPayload::Directive(Operations::Nak(_))) {\n            // a PDU from the peer is progress: clear the expiration count', 'rule': 'C17-H7'},
        {"id": "restart-on-reception", "file": S, "old": "            // a PDU from the peer is progress: clear the expiration count\n            self.timer.reset_inactivity();", "new": "            self.timer.restart_inactivity();", "rule": "C17-H7"},
        {"id": "reset-keeps-count", "file": T, "old": "        self.occurred = false;\n        self.count = 0;", "new": "        self.occurred = false;", "rule": "C17-T"},
        {"id": "fault-under-other-timer", "file": S, "old": "                    if self.timer.ack.limit_reached() {\n                        self.handle_fault(Condition::PositiveLimitReached)?", "new": "                    if self.timer.inactivity.limit_reached() {\n                        self.handle_fault(Condition::PositiveLimitReached)?", "rule": "C17-H4"},
        {"id": "suspend-arm-cancels", "file": R, "old": "            FaultHandlerAction::Suspend => {\n                self.suspend()?;\n                Ok(false)", "new": "            FaultHandlerAction::Suspend => {\n                self._cancel();\n                Ok(false)", "rule": "C17-H2"},
        {"id": "default-ignore", "file": S, "old": "            .get(&self.condition)\n            .unwrap_or(&FaultHandlerAction::Cancel);", "new": "            .get(&self.condition)\n            .unwrap_or(&FaultHandlerAction::Ignore);", "rule": "C17-H1"},
        {"id": "no-rearm-after-expiry", "file": R, "old": "                } else if self.timer.ack.timeout_occurred() {\n                    self.set_finished_flag(true);\n                    self.timer.restart_ack();\n                }\n            }\n            RecvState::Cancelled => {", "new": "                } else if self.timer.ack.timeout_occurred() {\n                    self.timer.restart_ack();\n                }\n            }\n            RecvState::Cancelled => {", "rule": "C17-W"},
    ],
    "C18": [
        {"id": "resume-queues-naks-any-mode", "file": R, "old": "                if self.config.transmission_mode == TransmissionMode::Acknowledged\n                    && (matches!(self.nak_procedure, NakProcedure::Immediate(_))\n                        || self.eof_received())", "new": "                if matches!(self.nak_procedure, NakProcedure::Immediate(_))\n                        || self.eof_received()", "rule": "C18-U1"},
        {"id": "unack-acks-eof", "file": R, "old": "                                self.condition = eof.condition;\n                                self.checksum = Some(eof.checksum);\n\n                                self.send_indication(Indication::EoFRecv(self.id()));\n\n                                if self.condition == Condition::NoError {\n                                    let carry_on = self.check_file_size(eof.file_size)?;\n                                    self.file_size = Some(eof.file_size);\n                                    // a file size fault", "new": "                                self.condition = eof.condition;\n                                self.prepare_ack_eof();\n                                self.checksum = Some(eof.checksum);\n\n                                self.send_indication(Indication::EoFRecv(self.id()));\n\n                                if self.condition == Condition::NoError {\n                                    let carry_on = self.check_file_size(eof.file_size)?;\n                                    self.file_size = Some(eof.file_size);\n                                    // a file size fault", "rule": "C18-U1"},
    ],
    "C19": [
        {"id": "suspend-keeps-ack-timer", "file": R, "old": "        self.timer.ack.pause();\n        self.timer.nak.pause();\n        self.timer.inactivity.pause();\n        self.state = TransactionState::Suspended;\n", "new": "        if self.config.transmission_mode == TransmissionMode::Acknowledged {\n            self.timer.ack.pause();\n        }\n        self.timer.nak.pause();\n        self.timer.inactivity.pause();\n        self.state = TransactionState::Suspended;\n", "rule": "C19-S"},
        {'id': 'finish-only-when-active', 'file': 'cfdp-daemon/src/transaction/recv.rs', 'old': '        if self.recv_state == RecvState::ReceiveData\n            && self.metadata.is_some()\n            && self.eof_received()', 'new': '        if self.recv_state == RecvState::ReceiveData\n            && self.state == TransactionState::Active\n            && self.metadata.is_some()\n            && self.eof_received()', 'rule': 'C19-R'},
        {'id': 'resume-keeps-ack-paused', 'file': 'cfdp-daemon/src/transaction/send.rs', 'old': '            SendState::SendEof | SendState::Cancelled => {\n                self.timer.restart_ack();\n                self.timer.restart_inactivity();', 'new': '            SendState::SendEof | SendState::Cancelled => {\n                self.timer.restart_inactivity();', 'rule': 'C19-D'},
        {"id": "resume-bare-start", "file": R, "old": "            RecvState::Finished | RecvState::Cancelled => self.timer.reset_ack(),\n        }\n        self.state = TransactionState::Active;", "new": "            RecvState::Finished | RecvState::Cancelled => self.timer.ack.start(),\n        }\n        self.state = TransactionState::Active;", "rule": "C19-C"},
        {"id": "gate-ignores-suspension", "file": S, "old": "        // nothing is transmitted while the transaction is suspended\n        if self.state == TransactionState::Suspended {\n            return false;\n        }\n        self.prompt.is_some()", "new": "        self.prompt.is_some()", "rule": "C19-A"},
    ],
    "C20": [
        {"id": "abandon-progress-zero", "file": S, "old": "            condition: self.condition,\n            progress: self.get_progress(),\n        }));\n\n        self.status = TransactionStatus::Terminated;", "new": "            condition: self.condition,\n            progress: 0,\n        }));\n\n        self.status = TransactionStatus::Terminated;", "rule": "C20-P1"},
        {"id": "progress-adds-offset", "file": S, "old": "            self.sent_file_size = self.sent_file_size.max(offset + data.len() as u64);", "new": "            self.sent_file_size += offset + data.len() as u64;", "rule": "C20-P3"},
        {"id": "receiver-counts-length", "file": R, "old": "            self.received_file_size += new_data_received;", "new": "            let _ = new_data_received;\n            self.received_file_size += length as u64;", "rule": "C20-P2"},
    ],
}
