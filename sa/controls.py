"""Positive controls: the zero-expected matchers must fire on /verif/fixtures/controls."""
import facts as factsmod
from core import Program
from panics import audit
from ranges import Ranges


class ControlFailure(Exception):
    pass


def static_is_shared_mutable(s):
    """C11-I4 predicate: `static mut`, or a static whose type is not Freeze (interior mutability)."""
    return bool(s.get("mutable")) or s.get("freeze") is False


def is_raw_fs_call(nm, decl=""):
    """C01-W / C12-R4 predicate: path-taking std::fs / tokio::fs API."""
    from rules_txn import PATH_FS_PREFIXES, HANDLE_METHODS

    return nm.startswith(PATH_FS_PREFIXES) and nm not in HANDLE_METHODS and (decl or "") not in HANDLE_METHODS


_DONE = {}


def verify():
    """Run all controls once per process; raise ControlFailure naming the dead matcher."""
    if _DONE:
        return _DONE
    f = factsmod.extract_fixture("controls")
    prog = Program(f)
    res = {}
    st = {s["path"].split("::")[-1]: static_is_shared_mutable(s) for s in prog.statics}
    if not (st.get("COUNTER") and st.get("SHARED") and st.get("TABLE") is False):
        raise ControlFailure("C11-I4 static predicate: %s" % st)
    res["statics"] = st
    raw = []
    for fn in prog.by_norm.values():
        for b, t in fn.all_calls():
            d, r, _ = prog.callee_of(t)
            if is_raw_fs_call(r or d or "", d or ""):
                raw.append(fn.name)
    if sorted(raw) != ["make_all", "raw_fs", "split_helper", "verdict_caller"]:
        raise ControlFailure("raw filesystem call predicate matched %s" % raw)
    res["raw_fs"] = raw
    sites = audit(None, prog, list(prog.by_norm.values()), ())
    open_by_fn = {}
    for s in sites:
        if s.status == "open":
            open_by_fn.setdefault(s.fn.name, []).append(s.kind)
    want = {
        "overflow_add": "assert:overflow:Add",
        "unwrap_input": "call:unwrap",
        "index_unbounded": "assert:bounds",
        "slice_unbounded": "call:index",
        "div_input": "assert:div_zero",
    }
    for fn, kind in want.items():
        if kind not in open_by_fn.get(fn, []):
            raise ControlFailure("panic audit: %s should report %s, reported %s" % (fn, kind, open_by_fn.get(fn)))
    if open_by_fn.get("discharged_add"):
        raise ControlFailure("panic audit: discharged_add must be discharged, reported %s" % open_by_fn.get("discharged_add"))
    res["panic_sites"] = {k: sorted(set(v)) for k, v in open_by_fn.items()}
    # lossy-conversion predicate (C06-P4)
    from rules_codec import is_lossy_call

    lossy = []
    for fn in prog.by_norm.values():
        for b, t in fn.all_calls():
            d, r, _ = prog.callee_of(t)
            cal = r or d or ""
            if is_lossy_call(cal):
                lossy.append(fn.name)
    if sorted(lossy) != ["lossy_path", "lossy_text"]:
        raise ControlFailure("lossy-conversion predicate matched %s" % lossy)
    res["lossy"] = lossy
    # allocation range
    g = [x for x in prog.by_norm.values() if x.name == "alloc_wide"][0]
    rg = Ranges(prog, g)
    sized = None
    for b, t in g.all_calls():
        d, r, _ = prog.callee_of(t)
        if (r or d or "").endswith("from_elem"):
            sized = rg.of(rg.eb.call(b, t)[3][1])
    if not sized or sized[1] <= 65537:
        raise ControlFailure("allocation range control: %s" % (sized,))
    res["alloc_range"] = sized
    # value-altering call in an encoder (C05-L7)
    from rules_c05 import is_value_altering_call

    va = [fn.name for fn in prog.by_norm.values() for b, t in fn.all_calls() if is_value_altering_call(prog.callee_of(t)[1] or prog.callee_of(t)[0] or "")]
    if "clamping_encode" not in va:
        raise ControlFailure("value-altering call matcher matched %s" % va)
    res["value_altering"] = sorted(set(va))
    # ancestor-creating filesystem call (C13-Q5)
    from rules_misc import is_ancestor_creating_call

    anc = [fn.name for fn in prog.by_norm.values() for b, t in fn.all_calls() if is_ancestor_creating_call(prog.callee_of(t)[1] or prog.callee_of(t)[0] or "")]
    if anc != ["make_all"]:
        raise ControlFailure("ancestor-creating call matcher matched %s" % anc)
    res["ancestor_creating"] = anc
    # narrowing-cast matcher (C07-S8)
    from rules_pdu import narrowing_casts

    nc = {f.name: lossless for f, b, st, frm, to, lossless in narrowing_casts(prog, list(prog.by_norm.values()))}
    if nc.get("narrow") is not False or nc.get("narrow_ok") is not True:
        raise ControlFailure("narrowing-cast matcher: %s" % nc)
    res["narrowing_casts"] = {k: ("lossless" if v else "can truncate") for k, v in nc.items()}
    # normalisation: a new private helper is spliced into its caller (sa/inline.py), the flag
    # computed in the caller still guards the helper's body, and the mod summary of the caller
    # is what it was for the unsplit function
    from inline import inline_new_helpers
    from core import strip_generics
    from df import Flow, Mods

    known = {strip_generics(b["path"]) for b in f["controls"]["bodies"] if b["name"] not in ("split_helper", "tally_bump", "verdict_helper")}
    f2, rep = inline_new_helpers(f, known)
    prog2 = Program(f2)
    names = [x.name for x in prog2.by_norm.values()]
    spliced = sorted(r["helper"].split("::")[-1] for r in rep)
    if "split_helper" in names or spliced != ["split_helper", "tally_bump", "verdict_helper"]:
        raise ControlFailure("inliner did not splice the three control helpers: %s" % rep)
    rep = [r for r in rep if r["helper"].endswith("split_helper")]
    # a `&mut` parameter pointing at a local of the caller is re-targeted: the helper's `*acc += by` is a
    # write to the caller's `total`
    tc = [x for x in prog2.by_norm.values() if x.name == "tally_caller"][0]
    wr = [s_ for b in tc.live_blocks() for s_ in tc.blocks[b]["stmts"] if s_["k"] == "assign" and tc.place_str(s_["place"]) == "total" and s_["rv"]["k"] != "use" or (s_["k"] == "assign" and tc.place_str(s_["place"]) == "total" and s_["rv"]["k"] == "use" and s_["rv"]["op"].get("k") == "move")]
    if len(wr) < 1:
        raise ControlFailure("inliner: the accumulator behind `&mut total` is not written as `total` in tally_caller")
    # an `Option<bool>` verdict out of a spliced helper: the filesystem call lies under armed == true only
    vc = [x for x in prog2.by_norm.values() if x.name == "verdict_caller"][0]
    rmv = [(b, t) for b, t in vc.all_calls() if is_raw_fs_call(prog2.callee_of(t)[1] or prog2.callee_of(t)[0] or "", prog2.callee_of(t)[0] or "")]
    if len(rmv) != 1:
        raise ControlFailure("inliner: verdict_caller should contain one raw filesystem call")
    flv = Flow(prog2, Mods(prog2), vc, lambda k: k[0] == "val" and k[1] in ("self.armed", "self.limit"))
    wsv = [dict(w) for w in flv.at_term(rmv[0][0])]
    if not wsv or not all(w.get(("val", "self.armed")) == (True, frozenset([1])) for w in wsv):
        raise ControlFailure("flow: the call under Some(true) of the helper's verdict is not under self.armed == true: %s" % wsv)
    res["inliner_by_ref_and_verdict"] = {"retargeted_writes_to_total": len(wr), "verdict_call_under": "self.armed==true"}
    sc = [x for x in prog2.by_norm.values() if x.name == "split_caller"][0]
    rm = [(b, t) for b, t in sc.all_calls() if is_raw_fs_call(prog2.callee_of(t)[1] or prog2.callee_of(t)[0] or "", prog2.callee_of(t)[0] or "")]
    if len(rm) != 1:
        raise ControlFailure("inliner: the helper's filesystem call is not visible in split_caller")
    fl = Flow(prog2, Mods(prog2), sc, lambda k: k[0] == "val" and k[1] == "self.armed")
    ws = [dict(w) for w in fl.at_term(rm[0][0])]
    if not ws or not all(w.get(("val", "go")) == (True, frozenset([1])) and w.get(("val", "self.armed")) == (True, frozenset([1])) for w in ws):
        raise ControlFailure("inliner/flow: the spliced call is not under go == true and self.armed == true: %s" % ws)
    if sorted(Mods(prog2).of(sc.norm) or []) != ["hits"]:
        raise ControlFailure("inliner/mods: split_caller should write only `hits`: %s" % sorted(Mods(prog2).of(sc.norm) or []))
    res["inliner"] = {"spliced": rep[0]["helper"], "guards_at_spliced_call": ["go==true", "self.armed==true"], "mods": ["hits"]}
    _DONE.update(res)
    return _DONE
