"""C11: routing errors are never fatal; routing-path panic audit; transaction-id freshness;
no global mutable state."""
import re

from core import ExprBuilder, callee_name, expr_str, short, walk, places_in, calls_in, dominators
from engine import rule, ok, bad, undecided, at, Anchor
from common import call_sites, ends, agg_sites, field_writes, backslice
from panics import audit
from rules_codec import _site_instances
from df import _walk_nocall

DAEMON = "cfdp_daemon::Daemon"


def _daemon_fn(ctx, rid, name):
    fs = [f for f in ctx.prog.by_norm.values() if f.norm == DAEMON + "::" + name]
    if len(fs) != 1:
        raise Anchor(rid, "Daemon::" + name)
    return fs[0]


def _body(ctx, f):
    """The async fn's coroutine body (closure#0) and closures nested in it."""
    cs = ctx.prog.closures_of(f)
    return [f] + cs


def _error_variants(ctx, fns, adt="DaemonError"):
    """Variants of `adt` constructible in these functions: aggregates, and From impls called."""
    out = {}
    for f in fns:
        for _f, b, j, s in agg_sites([f], adt):
            out.setdefault(s["rv"]["variant"], []).append(at(f, s["span"]["line"]))
        ebv = ExprBuilder(ctx.prog, f, inline=False)
        for b, t in f.all_calls():
            d, r, info = ctx.prog.callee_of(t)
            # a tuple-variant constructor used as a function value or called directly
            for x in [("fn", d or "")] + [a for a in ebv.call(b, t)[3] if a[0] == "fn"]:
                m = re.search(r"(?:^|::)%s::(\w+)$" % adt, x[1] or "")
                if m and m.group(1)[0].isupper():
                    out.setdefault(m.group(1), []).append(at(f, t["span"]["line"]) + " (constructor fn)")
            tgt = ctx.prog.by_norm.get(r or "") or ctx.prog.by_norm.get(d or "")
            if tgt is not None and (tgt.impl_self_adt or "").endswith(adt) and tgt.name in ("from", "into", "try_from"):
                for _g, b2, j2, s2 in agg_sites([tgt], adt):
                    out.setdefault(s2["rv"]["variant"], []).append(at(f, t["span"]["line"]) + " via " + short(tgt.norm))
    return out


def _sync_reach(ctx, roots):
    """Local functions run on the daemon task: bodies + closures of the roots, and local
    callees reached through calls - but not the closures nested in those callees (the task
    bodies handed to tokio::spawn run on their own task)."""
    seen = {}
    st = []
    for r in roots:
        for g in _body(ctx, r):
            st.append(g)
    while st:
        f = st.pop()
        if f.norm in seen:
            continue
        seen[f.norm] = f
        for b, t in f.all_calls():
            for tg in ctx.prog.call_targets(t):
                if tg.norm not in seen and tg.crate == "cfdp_daemon":
                    st.append(tg)
    return list(seen.values())


@rule("C11", "C11-I1", 2, "no error that PDU routing (or a user primitive) can produce reaches a daemon-stopping arm")
def c11_i1(ctx):
    mt = _daemon_fn(ctx, "C11-I1", "manage_transactions")
    names = ctx.prog.variant_names("cfdp_daemon::error::DaemonError")
    if not names:
        raise Anchor("C11-I1", "enum DaemonError")
    allv = set(names.values())
    found = 0
    for g in _body(ctx, mt):
        eb = ExprBuilder(ctx.prog, g)
        for b in g.live_blocks():
            t = g.blocks[b]["term"]
            if t["k"] != "switch":
                continue
            e = eb.operand(t["discr"])
            txt = expr_str(e)
            m = re.match(r"^discr\(\(\((\w+)::\{closure#0\}\(.*\)\)@Ready\.0\)@Err\.0\)$", txt)
            if not m:
                continue
            src = m.group(1)
            found += 1
            root = _daemon_fn(ctx, "C11-I1", src)
            produced = _error_variants(ctx, _sync_reach(ctx, [root]))
            # classify arms
            cls = {}
            explicit = set()
            arms = [(names.get(v, str(v)), tb) for v, tb in t["targets"]]
            rest = allv - {a for a, _ in arms}
            for a, tb in arms + [(None, t["otherwise"])]:
                dom = dominators(g)
                mine = {x for x in g.live_blocks() if tb in dom.get(x, ())}
                stop = False
                for x in mine:
                    blk = g.blocks[x]
                    for s in blk["stmts"]:
                        if s["k"] == "assign" and s["place"]["local"] == 0 and s["rv"]["k"] == "agg" and s["rv"].get("variant") == "Err":
                            stop = True
                    tt = blk["term"]
                    if tt["k"] == "call":
                        cal = ctx.prog.callee_of(tt)[1] or ctx.prog.callee_of(tt)[0] or ""
                        if cal.endswith("AtomicBool::store") or cal.endswith("Atomic::store") or cal.endswith("::store"):
                            stop = True
                for v in ([a] if a else sorted(rest)):
                    cls[v] = "stop" if stop else "continue"
            for v in sorted(allv):
                key = "manage_transactions:%s:%s" % (src, v)
                where = at(g, t["span"]["line"])
                if v in produced and cls.get(v) == "stop":
                    yield bad("C11-I1", key, where, "DaemonError::%s can be produced by %s (%s) and its arm stops the daemon (returns Err / sets terminate)" % (v, src, produced[v][:3]))
                elif v in produced:
                    yield ok("C11-I1", key, where, "produced at %s; handled and the loop continues" % produced[v][:2])
                else:
                    yield ok("C11-I1", key, where, "not producible by %s (arm class: %s)" % (src, cls.get(v)), nontrivial=False)
    if found < 2:
        raise Anchor("C11-I1", "match on the results of forward_pdu / process_primitive in manage_transactions (found %d)" % found)


def _elapsed_guard(prog, fn, b):
    """the site is reached only with `now - start_time >= timeout` established (the loop test of Counter::update)"""
    from rules_wiring import _under_elapsed_test

    class _C:
        pass

    c = _C()
    c.prog = prog
    from df import Mods
    from panics import _mods

    c.mods = _mods(prog)
    return _under_elapsed_test(c, fn, b)


JUSTIFIED_DAEMON = (
    {"fn": "Daemon::manage_transactions", "mac": "tokio::select", "reason": "tokio::select! internals; trusted macro expansion"},
    {"fn": "Daemon::manage_transactions", "mac": "$crate::select", "reason": "tokio::select! internals; trusted macro expansion"},
    {"fn": "Daemon::manage_transactions", "mac": "$crate::panic::panic_2021", "reason": "unreachable! arms generated by tokio::select!"},
    {"fn": "Daemon::manage_transactions", "mac": "$crate::select_priv_declare_output_enum", "reason": "tokio::select! internals"},
    {"fn": "Daemon::manage_transactions", "mac": "tokio::pin", "reason": "tokio::pin! internals"},
    {
        "fn": "Daemon::cleanup_transactions",
        "kind": "call:index",
        "match": r"^Index>::index\(&\(?_?self\)?.*transaction_handles, ind\)$",
        "reason": "dominated by the loop test ind < transaction_handles.len()",
    },
    {
        "fn": "Daemon::cleanup_transactions",
        "kind": "call:remove",
        "match": r"^Vec::remove\(&mut .*transaction_handles, ind\)$",
        "reason": "same iteration as the loop test ind < transaction_handles.len(); nothing in between changes the vector",
    },
    {
        "fn": "timer::Counter::update",
        "kind": ("call:add_assign", "call:add"),
        "match": r"^(AddAssign>::add_assign\(&mut self\.start_time, (self\.)?timeout\)|Add>::add\(self\.start_time, (self\.)?timeout\))$",
        "sem": lambda prog, fn, b, t, ebf: _elapsed_guard(prog, fn, b),
        "reason": "executed only inside `while now - start_time >= timeout`, so start_time + timeout <= now: no Instant overflow",
    },
    {
        "fn": "timer::Counter::update",
        "kind": "assert:overflow:Add",
        "match": r"^\(AddWithOverflow\(self\.count, const\(1\)\)\)\.1$",
        "reason": "count <= max_count by the clamp on every write; overflow needs max_count == u32::MAX and 2^32 expirations",
    },
    {
        "fn": "Daemon::cleanup_transactions",
        "kind": "assert:overflow:Add",
        "match": r"AddWithOverflow\(ind, const\(1\)\)",
        "reason": "ind < len <= isize::MAX",
    },
)


@rule("C11", "C11-I2", 5, "no panic site on the daemon task's routing path (manage_transactions, forward_pdu, process_primitive, cleanup_transactions and what they call synchronously)")
def c11_i2(ctx):
    roots = [_daemon_fn(ctx, "C11-I2", n) for n in ("manage_transactions", "forward_pdu", "process_primitive", "cleanup_transactions")]
    fns = _sync_reach(ctx, roots)
    ctx.stats["C11_functions_on_daemon_task"] = sorted(short(f.norm) for f in fns)
    sites = audit(ctx, ctx.prog, fns, JUSTIFIED_DAEMON)
    # the index justifications hold only if the loop test is there
    cl = [f for f in fns if "cleanup_transactions" in f.norm]
    txt = ""
    for f in cl:
        eb = ExprBuilder(ctx.prog, f, user_stop=True)
        for b in f.live_blocks():
            t = f.blocks[b]["term"]
            if t["k"] == "switch":
                txt += expr_str(eb.operand(t["discr"])) + "\n"
    guard = re.search(r"Lt\(ind, Vec::len\(&.*transaction_handles\)\)", txt) is not None
    for s in sites:
        if s.status == "justified" and "cleanup_transactions" in s.fn.norm and s.kind in ("call:index", "call:remove") and not guard:
            s.status = "open"
            s.reason = "no `ind < transaction_handles.len()` loop test found"
    yield from _site_instances("C11-I2", sites, ctx.prog)


@rule("C11", "C11-I3", 3, "fresh transaction ids come from a single read-and-increment of a counter nobody else writes", also=("C01",))
def c11_i3(ctx):
    fns = [f for f in ctx.prog.by_norm.values() if f.crate == "cfdp_daemon" and (f.norm.startswith(DAEMON + "::") )]
    n = 0
    # writers of self.sequence_num
    for f in fns:
        eb = ExprBuilder(ctx.prog, f, inline=False)
        for _f, b, j, s, ps in field_writes([f], "self.sequence_num"):
            if f.name == "new":
                continue
            n += 1
            yield bad("C11-I3", "%s:sequence_num=" % short(f.root or f.norm), at(f, s["span"]["line"]), "Daemon.sequence_num assigned directly outside get_and_increment")
        for _f, b, j, s, ps in field_writes([f], "_self.sequence_num"):
            n += 1
            yield bad("C11-I3", "%s:sequence_num=" % short(f.root or f.norm), at(f, s["span"]["line"]), "Daemon.sequence_num assigned directly outside get_and_increment")
        for b, t in f.all_calls():
            e = eb.call(b, t)
            for a in e[3]:
                for x in _walk_nocall(a):
                    if x[0] == "ref" and x[1] and x[2][0] == "place" and x[2][1].endswith("sequence_num") and "self" in x[2][1]:
                        n += 1
                        cal = callee_name(e) or ""
                        key = "%s:&mut sequence_num->%s" % (short(f.root or f.norm), cal.split("::")[-1])
                        if cal.endswith("VariableID::get_and_increment") and (f.root or f.norm).endswith("Daemon::process_primitive"):
                            yield ok("C11-I3", key, at(f, t["span"]["line"]), "read-and-increment in the Put arm")
                        else:
                            yield bad("C11-I3", key, at(f, t["span"]["line"]), "Daemon.sequence_num mutably borrowed by %s" % cal)
    if n == 0:
        raise Anchor("C11-I3", "uses of Daemon.sequence_num")
    # the id handed back and used as the routing key is built from that result
    pp = [f for f in fns if (f.root or "").endswith("Daemon::process_primitive") and f.parent and f.parent.endswith("Daemon::process_primitive")]
    for f in pp:
        eb = ExprBuilder(ctx.prog, f)
        ids = []
        for _f, b, j, s in agg_sites([f], "TransactionID"):
            e = eb.rvalue(s["rv"])
            ids.append((s["span"]["line"], expr_str(e)))
        goodid = [x for x in ids if "VariableID::get_and_increment(&mut" in x[1] and "entity_id" in x[1].split(",")[0]]
        if goodid:
            yield ok("C11-I3", "process_primitive:TransactionID", at(f, goodid[0][0]), goodid[0][1][:200])
        else:
            yield bad("C11-I3", "process_primitive:TransactionID", at(f), "the transaction id of a Put is not (own entity id, get_and_increment result): %s" % ids)
        # what is sent back to the user and inserted in the routing table is that id
        for b, t in f.all_calls():
            e = eb.call(b, t)
            cal = callee_name(e) or ""
            if cal.endswith("oneshot::Sender::send") or (cal.endswith("HashMap::insert") and "transaction_channels" in expr_str(e[3][0])):
                arg = expr_str(e[3][1])
                key = "process_primitive:%s" % cal.split("::")[-2:][0] + "::" + cal.split("::")[-1]
                if "get_and_increment" in arg:
                    yield ok("C11-I3", key, at(f, t["span"]["line"]), arg[:160])
                else:
                    yield bad("C11-I3", key, at(f, t["span"]["line"]), "%s receives %s, not the freshly allocated id" % (cal.split("::")[-1], arg[:160]))
    # get_and_increment returns the old value and increments afterwards; increment adds 1 (wrapping)
    g = ctx.one("C11-I3", "VariableID::get_and_increment")
    ebg = ExprBuilder(ctx.prog, g, user_stop=True)
    rets = [expr_str(ebg._def_expr(d, 0, (0,))) for d in g.defs(0) if d[0] in ("assign", "call")]
    cur = [expr_str(x) for x in ebg.var_defs(rets[0])] if rets and re.match(r"^\w+$", rets[0]) else []
    incs = [(b, t) for b, t in g.all_calls() if (ctx.prog.callee_of(t)[1] or ctx.prog.callee_of(t)[0] or "").endswith("VariableID::increment")]
    if cur == ["self"] and len(incs) == 1:
        # the copy happens before the increment
        yield ok("C11-I3", "VariableID::get_and_increment", at(g), "returns the value read before increment()")
    else:
        yield bad("C11-I3", "VariableID::get_and_increment", at(g), "does not return the pre-increment value (returns %s <- %s, %d increment calls)" % (rets, cur, len(incs)))
    h = ctx.one("C11-I3", "VariableID::increment")
    ebh = ExprBuilder(ctx.prog, h)
    adds = []
    for b, t in h.all_calls():
        e = ebh.call(b, t)
        cal = callee_name(e) or ""
        if cal.split("::")[-1] in ("overflowing_add", "wrapping_add"):
            adds.append(expr_str(e[3][1]))
    if len(adds) == 4 and all(a == "const(1)" for a in adds):
        yield ok("C11-I3", "VariableID::increment", at(h), "each width advances by 1 (wrapping)")
    else:
        yield bad("C11-I3", "VariableID::increment", at(h), "increment does not advance every width by exactly 1: %s" % adds)


@rule("C11", "C11-I4", 0, "no mutable global state is shared between transactions (no static mut, no interior-mutable static, no thread-local buffer)", also=("C16",))
def c11_i4(ctx):
    n = 0
    from controls import static_is_shared_mutable

    for s in ctx.prog.statics:
        n += 1
        ty = s.get("ty", "")
        name = s.get("path", "?")
        where = "%s:%s" % (s.get("span", {}).get("file", "?"), s.get("span", {}).get("line", "?"))
        if static_is_shared_mutable(s):
            yield bad("C11-I4", "static:%s" % name, where, "mutable / interior-mutable static %s: %s (state shared by every transaction)" % (name, ty))
        else:
            yield ok("C11-I4", "static:%s" % name, where, "immutable static of type %s" % ty)
    yield ok("C11-I4", "statics", "both crates", "%d statics in the workspace crates" % n, nontrivial=False)


@rule("C11", "C11-I5", 5, "the id a transaction task hands back for reaping is the key under which it is routed: (source entity, sequence number) of the PDUs / of the Put")
def c11_i5(ctx):
    from common import simp, sstr, RECV, SEND

    # (a) id() of both transaction kinds
    for adt, nm in ((RECV, "RecvTransaction"), (SEND, "SendTransaction")):
        f = ctx.one("C11-I5", nm + "::id")
        eb = ExprBuilder(ctx.prog, f)
        rets = [sstr(eb._def_expr(d, 0, (0,))) for d in f.defs(0) if d[0] in ("assign", "call")]
        if rets == ["transaction::TransactionID::TransactionID{self.config.source_entity_id, self.config.sequence_number}"]:
            yield ok("C11-I5", "%s::id" % nm, at(f), "(config.source_entity_id, config.sequence_number)")
        else:
            yield bad("C11-I5", "%s::id" % nm, at(f), "id() is %s, not (config.source_entity_id, config.sequence_number)" % rets)
    # (b) what the spawned tasks return
    for fn_name, want in (("spawn_receive_transaction", r"^RecvTransaction::id\(transaction\)$"), ("spawn_send_transaction", r"^(SendTransaction::id\(transaction\)|transaction_id)$")):
        f = _daemon_fn(ctx, "C11-I5", fn_name)
        tasks = [c for c in ctx.prog.closures_of(f) if c.parent == f.norm]
        if not tasks:
            raise Anchor("C11-I5", fn_name + " task closure")
        for c in tasks:
            eb = ExprBuilder(ctx.prog, c)
            oks = []
            for d in c.defs(0):
                if d[0] == "assign" and d[3]["k"] == "agg" and d[3].get("variant") == "Ok":
                    e = simp(eb.rvalue(d[3]))
                    v0 = e[5][0] if e[5] else None
                    txt0 = expr_str(v0) if v0 is not None else "?"
                    if v0 is not None and v0[0] == "place" and re.match(r"^\w+$", v0[1]) and not re.match(want, txt0):
                        # a local the id was put in (`let id = transaction.id();`)
                        ds0 = [sstr(x) for x in eb.var_defs(v0[1])]
                        if len(ds0) == 1 and ds0[0] != v0[1]:
                            txt0 = ds0[0]
                        else:
                            # ... captured from the spawning function, where it was taken from the transaction
                            ebp = ExprBuilder(ctx.prog, f)
                            dsp = [sstr(x) for x in ebp.var_defs(v0[1])]
                            if len(dsp) == 1:
                                txt0 = dsp[0].replace("&", "")
                    oks.append(txt0)
            key = "%s:task-result" % fn_name
            if oks and all(re.match(want, x) for x in oks):
                yield ok("C11-I5", key, at(c), "task returns %s" % oks)
            else:
                yield bad("C11-I5", key, at(c), "the task returns %s for reaping, not the transaction's own id (the routing entry of another transaction would be removed)" % oks)
    # (c) receive side: config built from the header's (source entity, sequence number)
    f = _daemon_fn(ctx, "C11-I5", "spawn_receive_transaction")
    for _f, b, j, s in agg_sites([f], "TransactionConfig"):
        e = simp(ExprBuilder(ctx.prog, f, user_stop=True).rvalue(s["rv"]))
        fl = dict(zip(e[4], e[5]))
        a, q = expr_str(fl.get("source_entity_id", ("other",))), expr_str(fl.get("sequence_number", ("other",)))
        if a == "header.source_entity_id" and q == "header.transaction_sequence_number":
            yield ok("C11-I5", "spawn_receive_transaction:config", at(f, s["span"]["line"]), "config ids from the PDU header")
        else:
            yield bad("C11-I5", "spawn_receive_transaction:config", at(f, s["span"]["line"]), "config (source_entity_id, sequence_number) = (%s, %s), not the PDU header's" % (a, q))
    f = _daemon_fn(ctx, "C11-I5", "spawn_send_transaction")
    for _f, b, j, s in agg_sites([f], "TransactionConfig"):
        e = simp(ExprBuilder(ctx.prog, f, user_stop=True).rvalue(s["rv"]))
        fl = dict(zip(e[4], e[5]))
        a, q = expr_str(fl.get("source_entity_id", ("other",))), expr_str(fl.get("sequence_number", ("other",)))
        if a == "transaction_id.0" and q == "transaction_id.1":
            yield ok("C11-I5", "spawn_send_transaction:config", at(f, s["span"]["line"]), "config ids from the allocated transaction id")
        else:
            yield bad("C11-I5", "spawn_send_transaction:config", at(f, s["span"]["line"]), "config (source_entity_id, sequence_number) = (%s, %s), not the allocated id's" % (a, q))
    # (d) routing key in forward_pdu
    fw = _daemon_fn(ctx, "C11-I5", "forward_pdu")
    found = False
    for c in _body(ctx, fw):
        eb = ExprBuilder(ctx.prog, c, user_stop=True)
        for b, t in c.all_calls():
            e = eb.call(b, t)
            if (callee_name(e) or "").endswith("HashMap::entry") and "transaction_channels" in expr_str(e[3][0]):
                k = simp(e[3][1])
                ks = expr_str(k)
                if k[0] == "place" and re.match(r"^\w+$", k[1]):
                    ds = [sstr(x) for x in eb.var_defs(k[1])]
                    ks = ds[0] if len(ds) == 1 else str(ds)
                found = True
                if ks == "transaction::TransactionID::TransactionID{pdu.header.source_entity_id, pdu.header.transaction_sequence_number}":
                    yield ok("C11-I5", "forward_pdu:routing-key", at(c, t["span"]["line"]), ks)
                else:
                    yield bad("C11-I5", "forward_pdu:routing-key", at(c, t["span"]["line"]), "PDUs are routed by %s, not by (header.source_entity_id, header.transaction_sequence_number)" % ks)
    if not found:
        raise Anchor("C11-I5", "transaction_channels.entry(key) in forward_pdu")


# ================================================================ C11-I6
@rule("C11", "C11-I6", 3, "a new transaction is configured with the peer's entity configuration: the lookup key is the Put request's destination entity / the received PDU's source entity", also=("C07",))
def c11_i6(ctx):
    from common import simp, sstr

    n = 0
    for fn_name, want, what in (("process_primitive", r"destination_entity_id", "the Put request's destination_entity_id"), ("forward_pdu", r"source_entity_id|^key\.0$", "the PDU's source entity (the routing key's first component)")):
        f = _daemon_fn(ctx, "C11-I6", fn_name)
        for c in _body(ctx, f):
            ebu = ExprBuilder(ctx.prog, c, user_stop=True)
            ebf = ExprBuilder(ctx.prog, c)
            for b, t in c.all_calls():
                e = ebu.call(b, t)
                if not ((callee_name(e) or "").endswith("HashMap::get") and e[3] and "entity_configs" in expr_str(e[3][0])):
                    continue
                n += 1
                k_u = sstr(e[3][1])
                k_f = sstr(ebf.call(b, t)[3][1])
                key = "%s:entity_configs.get#%d" % (fn_name, n)
                srcs = {k_u, k_f}
                m = re.match(r"^(\w+)((?:\.\w+)*)$", k_u)
                if m:
                    for d in ebu.var_defs(m.group(1)):
                        srcs.add(sstr(d) + m.group(2))
                if any(re.search(want, x) for x in srcs) and not any("self.entity_id" in x for x in srcs):
                    yield ok("C11-I6", key, at(c, t["span"]["line"]), "looked up under %s" % k_u)
                else:
                    yield bad("C11-I6", key, at(c, t["span"]["line"]), "the entity configuration is looked up under %s, not %s: the transaction runs with another entity's (or the default) segment size, limits and fault handlers" % (sorted(srcs), what))
    if n == 0:
        raise Anchor("C11-I6", "entity_configs.get(..) in process_primitive / forward_pdu")


@rule("C11", "C11-I8", 2, "the link a transaction started by a received PDU answers on is the link of the PDU's peer: the transport is looked up under the PDU's source entity for a PDU addressed to a receiver (its destination entity for one addressed to a sender)")
def c11_i8(ctx):
    from common import simp, sstr
    from df import Flow

    f = _daemon_fn(ctx, "C11-I8", "forward_pdu")
    n = 0
    for c in _body(ctx, f):
        ebu = ExprBuilder(ctx.prog, c, user_stop=True)
        fl = None
        for b, t in c.all_calls():
            e = ebu.call(b, t)
            if not ((callee_name(e) or "").endswith("HashMap::get") and e[3] and "transport_tx_map" in expr_str(e[3][0])):
                continue
            n += 1
            k_u = sstr(e[3][1])
            key = "forward_pdu:transport_tx_map.get#%d" % n
            alts = set()
            m = re.match(r"^(\w+)$", k_u)
            if m:
                for d in ebu.var_defs(m.group(1)):
                    d = simp(d)
                    alts |= {sstr(x) for x in (d[2] if d[0] == "phi" else [d])}
            else:
                alts = {k_u}
            src = {a for a in alts if a.endswith("header.source_entity_id")}
            dst = {a for a in alts if a.endswith("header.destination_entity_id")}
            if alts and src and dst and alts == src | dst:
                # chosen by direction: check the choice itself below (the defining match)
                yield ok("C11-I8", key, at(c, t["span"]["line"]), "looked up under %s = %s" % (k_u, sorted(alts)))
                continue
            if fl is None:
                fl = Flow(ctx.prog, ctx.mods, c, lambda k: k[0] == "val" and k[1].endswith("header.direction"), user_stop=True)
            ws = [dict(w) for w in fl.at_term(b)]

            def dirs(w):
                for k, (pos, vs) in w.items():
                    if k[0] == "val" and k[1].endswith("header.direction") and pos and len(vs) == 1:
                        return list(vs)[0]
                return None

            good = bool(ws) and all((dirs(w) == "ToReceiver" and alts == src and src) or (dirs(w) == "ToSender" and alts == dst and dst) for w in ws)
            if good:
                yield ok("C11-I8", key, at(c, t["span"]["line"]), "looked up under %s on the arm of that direction" % k_u)
            else:
                yield bad("C11-I8", key, at(c, t["span"]["line"]), "the transport for a transaction started by a received PDU is looked up under %s, which is not the PDU's peer for its direction: the new transaction answers on another entity's link (or a reflected PDU of this entity's own transfer starts a receive transaction)" % sorted(alts))
        # the definition of the direction-dependent key
        for b in c.live_blocks():
            pass
    if n < 2:
        raise Anchor("C11-I8", "transport_tx_map.get(..) in forward_pdu")
    # the direction-dependent choice: ToSender -> destination, ToReceiver -> source
    for c in _body(ctx, f):
        fl = Flow(ctx.prog, ctx.mods, c, lambda k: k[0] == "val" and k[1].endswith("header.direction"), user_stop=True)
        ebr = ExprBuilder(ctx.prog, c, user_stop=True)
        for b in c.live_blocks():
            for j, st in enumerate(c.blocks[b]["stmts"]):
                if st["k"] != "assign" or st["place"]["proj"] or st["rv"]["k"] != "use":
                    continue
                nm = c.place_str(st["place"])
                if nm != "transport_entity" and not (isinstance(nm, str) and "transport" in nm and "entity" in nm):
                    continue
                v = sstr(ebr.rvalue(st["rv"]))
                if not v.endswith(("header.source_entity_id", "header.destination_entity_id")):
                    continue
                ws = [dict(w) for w in fl.at_stmt(b, j)]
                want = "ToReceiver" if v.endswith("source_entity_id") else "ToSender"
                okd = bool(ws) and all(any(k[0] == "val" and k[1].endswith("header.direction") and pos and set(vs) == {want} for k, (pos, vs) in w.items()) for w in ws)
                key = "forward_pdu:%s<-%s" % (nm, v.split(".")[-1])
                if okd:
                    yield ok("C11-I8", key, at(c, st["span"]["line"]), "chosen on the %s arm" % want)
                else:
                    yield bad("C11-I8", key, at(c, st["span"]["line"]), "%s is taken from %s on a path that is not the %s arm of the PDU's direction" % (nm, v, want))


# ================================================================ C11-I7
def is_lossy_channel_send(cal):
    """A channel send that also fails when the queue is merely full."""
    return cal.startswith("tokio::sync::mpsc") and cal.split("::")[-1] in ("try_send", "try_reserve", "try_reserve_owned", "send_timeout")


@rule("C11", "C11-I7", 1, "the daemon never mistakes a busy transaction for a finished one, and no indication is dropped because the user's queue is momentarily full: PDUs, commands and indications are handed over with the waiting send (which fails only when the receiving end is gone), never with a send that also fails on a full queue", also=("C10", "C19"))
def c11_i7(ctx):
    fns = [f for f in ctx.prog.by_norm.values() if f.crate == "cfdp_daemon"]
    if len(fns) < 50:
        raise Anchor("C11-I7", "functions of cfdp-daemon")
    n = 0
    for f in fns:
        for b, t in f.all_calls():
            d, r, _ = ctx.prog.callee_of(t)
            cal = r or d or ""
            if is_lossy_channel_send(cal):
                n += 1
                yield bad("C11-I7", "%s:%s" % (short(f.root or f.norm), cal.split("::")[-1]) + ("#%d" % n if n > 1 else ""), at(f, t["span"]["line"]), "%s fails when the receiving task's queue is full as well as when the task has ended: a live transaction is treated as gone (its PDU dropped or a second transaction spawned under the same id)" % cal.split("::")[-1])
    yield ok("C11-I7", "daemon:no-lossy-send", "%d functions" % len(fns), "%d non-waiting sends" % n, nontrivial=(n == 0))


# ================================================================ C11-I9: an undecodable datagram never stops the transport task
@rule("C11", "C11-I9", 1, "whatever a transport's receive() reports for one datagram - truncated, garbled, any io error kind - the receive loop of pdu_handler goes on to the next one: no path from the Err arm of the receive result leaves the loop", also=("C06", "C16"))
def c11_i9(ctx):
    from core import natural_loops

    fs = [f for f in ctx.prog.by_norm.values() if f.crate == "cfdp_daemon" and f.kind == "Closure" and ((f.root or f.norm).endswith("PDUTransport::pdu_handler") or (f.file.endswith("transport.rs") and f.coroutine))]
    if not fs:
        raise Anchor("C11-I9", "the coroutine body of PDUTransport::pdu_handler")
    n = 0
    for f in fs:
        loops = natural_loops(f)
        for b in f.live_blocks():
            for st in f.blocks[b]["stmts"]:
                if st["k"] != "assign" or st["rv"]["k"] != "use" or st["rv"]["op"].get("k") not in ("move", "copy"):
                    continue
                pl = st["rv"]["op"]["place"]
                pj = pl["proj"]
                if len(pj) < 2 or pj[-2].get("k") != "downcast" or pj[-2].get("variant") != "Err" or pj[-1].get("k") != "field":
                    continue
                root_ty = f.locals[pl["local"]]["ty"] or ""
                inner_ty = " ".join(str(e.get("ty", "")) for e in pj)
                dest_ty = st["place"].get("ty") or ""
                if "io::" not in dest_ty or "Error" not in dest_ty or "SendError" in dest_ty:
                    continue
                if "PDU" not in root_ty + inner_ty:
                    continue  # (the socket's own error in UdpTransport::receive is what receive() reports, not a helper's doing)  # (only the io::Error a receive() reports - not the failure of the channel to the daemon)
                n += 1
                heads = {h for h, bd, bk in loops if b in bd}
                r = f.reachable(b, avoid=heads)
                in_handler = (f.root or f.norm).endswith("PDUTransport::pdu_handler")
                if not in_handler:
                    # a helper the receive loop hands the result to: it must not report the receive error as its own
                    # failure (the loop would propagate it with `?`)
                    errs = [x for x in r if any(s2["k"] == "assign" and s2["place"]["local"] == 0 and not s2["place"]["proj"] and s2["rv"]["k"] == "agg" and s2["rv"].get("variant") == "Err" for s2 in f.blocks[x]["stmts"]) or (f.blocks[x]["term"]["k"] == "call" and (ctx.prog.callee_of(f.blocks[x]["term"])[0] or "").endswith("from_residual"))]
                    key = "%s:receive-error-arm" % short(f.root or f.norm) + ("#%d" % n if n > 1 else "")
                    if errs:
                        yield bad("C11-I9", key, at(f, st["span"]["line"]), "the helper that takes the receive() result turns a receive error into an error of its own: the receive loop ends on one stray datagram")
                    else:
                        yield ok("C11-I9", key, at(f, st["span"]["line"]), "the receive error is logged and not propagated")
                    continue
                leak = [x for x in r if f.blocks[x]["term"]["k"] == "return" or any(s2["k"] == "assign" and s2["place"]["local"] == 0 and not s2["place"]["proj"] for s2 in f.blocks[x]["stmts"])]
                key = "pdu_handler:receive-error-arm" + ("#%d" % n if n > 1 else "")
                outer = [h for h, bd, bk in loops if b not in bd and b in f.reachable(h)]
                if not heads and outer:
                    yield bad("C11-I9", key, at(f, st["span"]["line"]), "a failed receive() can end the transport task: this Err arm of the receive result lies on a way out of the receive loop - one stray datagram of the right kind closes the daemon's PDU channel and the daemon stops")
                elif not heads:
                    yield undecided("C11-I9", key, at(f, st["span"]["line"]), "the error arm of the receive result is not inside a loop")
                elif leak:
                    yield bad("C11-I9", key, at(f, st["span"]["line"]), "a failed receive() can end the transport task: a path from the Err arm of the receive result returns from pdu_handler - one stray datagram of the right kind closes the daemon's PDU channel and the daemon stops")
                else:
                    yield ok("C11-I9", key, at(f, st["span"]["line"]), "every path from the Err arm goes back to the head of the receive loop")
    if n == 0:
        raise Anchor("C11-I9", "the Err arm of the receive() result in pdu_handler")


# ================================================================ C11-I10: a transaction task never waits on its link alone
@rule("C11", "C11-I10", 2, "a transaction's task waits for room on its outbound link only as one branch of its select, next to its command queue and its timer: it never awaits the transport permit on its own (while it did, it would stop draining its command queue, the daemon's forward_pdu would block on that queue, and every other transaction would stall behind one slow link)", also=("C19",))
def c11_i10(ctx):
    from common import local_uses

    fs = [f for f in ctx.prog.by_norm.values() if f.crate == "cfdp_daemon" and f.kind == "Closure" and re.search(r"Daemon::spawn_(receive|send)_transaction$", short(f.root or "") and (f.root or ""))]
    if not fs:
        raise Anchor("C11-I10", "task bodies of Daemon::spawn_receive_transaction / spawn_send_transaction")
    n = 0
    for f in fs:
        for b, t in f.all_calls():
            d, r, _ = ctx.prog.callee_of(t)
            cal = r or d or ""
            if not (cal.startswith("tokio::sync::mpsc") and cal.split("::")[-1] in ("reserve", "reserve_owned", "reserve_many")):
                continue
            n += 1
            key = "%s:reserve" % short(f.root or f.norm) + ("#%d" % n if n > 1 else "")
            verdict = None
            seen = set()
            work = [t["dest"]["local"]] if not t["dest"]["proj"] else []
            while work and verdict is None:
                l = work.pop()
                if l in seen:
                    continue
                seen.add(l)
                for kind, ub, uj, u in local_uses(f, l):
                    if kind == "stmt" and u["rv"]["k"] == "agg" and u["rv"].get("agg") == "tuple":
                        verdict = "select"
                    elif kind == "stmt" and u["rv"]["k"] in ("use", "ref") and not u["place"]["proj"]:
                        work.append(u["place"]["local"])
                    elif kind == "call":
                        dd, rr, _i = ctx.prog.callee_of(u)
                        if (rr or dd or "").endswith("into_future"):
                            verdict = "alone"
            if verdict == "select":
                yield ok("C11-I10", key, at(f, t["span"]["line"]), "one branch of the task's select")
            elif verdict == "alone":
                yield bad("C11-I10", key, at(f, t["span"]["line"]), "the task awaits a transport permit on its own: while the link has no room it neither drains its command queue nor serves its timers; the daemon's forward_pdu then blocks on that queue and every other transaction stalls")
            else:
                yield undecided("C11-I10", key, at(f, t["span"]["line"]), "use of the permit future not recognised")
    if n == 0:
        raise Anchor("C11-I10", "transport permit reservations in the transaction tasks")
