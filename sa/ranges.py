"""Interval analysis over reconstructed expressions (analysis F) and constant-return
summaries of local functions."""
import re

from core import ExprBuilder, callee_name, expr_str, is_transparent

INT_TY = {
    "u8": (0, 2**8 - 1),
    "u16": (0, 2**16 - 1),
    "u32": (0, 2**32 - 1),
    "u64": (0, 2**64 - 1),
    "u128": (0, 2**128 - 1),
    "usize": (0, 2**64 - 1),
    "i8": (-(2**7), 2**7 - 1),
    "i16": (-(2**15), 2**15 - 1),
    "i32": (-(2**31), 2**31 - 1),
    "i64": (-(2**63), 2**63 - 1),
    "isize": (-(2**63), 2**63 - 1),
    "bool": (0, 1),
}


def ty_range(ty):
    if not isinstance(ty, str):
        return None
    t = ty.strip()
    while t.startswith("&"):
        t = t[1:].lstrip()
        if t.startswith("mut "):
            t = t[4:]
    return INT_TY.get(t)


def _join(a, b):
    if a is None or b is None:
        return None
    return (min(a[0], b[0]), max(a[1], b[1]))


def _meet(a, b):
    if a is None:
        return b
    if b is None:
        return a
    lo, hi = max(a[0], b[0]), min(a[1], b[1])
    if lo > hi:
        return a  # contradictory: keep the computed one
    return (lo, hi)


_CONST_RET = {}


def const_returns(prog, norm):
    """Set of integer constants a local function can return, if every return is a
    literal (e.g. VariableID::encoded_len -> {1,2,4,8}); else None."""
    key = (id(prog), norm)
    if key in _CONST_RET:
        return _CONST_RET[key]
    _CONST_RET[key] = None
    fn = prog.by_norm.get(norm)
    out = None
    if fn is not None:
        vals = set()
        good = True
        ds = fn.defs(0)
        if not ds:
            good = False
        for d in ds:
            if d[0] == "assign" and d[3]["k"] == "use" and d[3]["op"]["k"] == "const" and isinstance(d[3]["op"].get("val"), int):
                vals.add(d[3]["op"]["val"])
            else:
                good = False
        if good and vals:
            out = vals
    _CONST_RET[key] = out
    return out


def _split_top(s):
    out, depth, cur = [], 0, ""
    for c in s:
        if c in "<([":
            depth += 1
        elif c in ">)]":
            depth -= 1
        if c == "," and depth == 0:
            out.append(cur)
            cur = ""
        else:
            cur += c
    out.append(cur)
    return out


class _Bot(Exception):
    pass


class Ranges:
    def __init__(self, prog, fn):
        self.prog = prog
        self.fn = fn
        self.eb = ExprBuilder(prog, fn, user_stop=True)
        self._stack = set()
        self._memo = {}
        # site-sensitive mode (see at()): ranges of user variables are the join over the definitions
        # that *reach* the site, iterated to a fixpoint for self-referential updates
        self.site = None
        self._rd = {}
        self._approx = {}
        self._done = {}

    # ---------------------------------------------------------- reaching definitions
    def at(self, block, idx=None):
        """Evaluate subsequent of() calls at the end of `block` (idx None) or just before statement idx."""
        self.site = (block, idx)
        return self

    def _def_sites(self, local):
        out = []
        for d in self.fn.defs(local):
            if d[0] in ("assign", "partial"):
                out.append((d[1], d[2], d))
            elif d[0] in ("call", "yield"):
                out.append((d[1], 10**6, d))
            elif d[0] == "arg":
                out.append((-1, -1, d))
        return out

    def _reaching(self, local):
        """IN sets per block: indices (into _def_sites) of the definitions of `local` reaching the block entry."""
        if local in self._rd:
            return self._rd[local]
        fn = self.fn
        sites = self._def_sites(local)
        last = {}
        for i, (b, j, d) in enumerate(sites):
            if b >= 0 and d[0] != "partial":
                if b not in last or sites[last[b]][1] < j:
                    last[b] = i
        partial = {}
        for i, (b, j, d) in enumerate(sites):
            if d[0] == "partial":
                partial.setdefault(b, set()).add(i)
        entry = frozenset(i for i, (b, j, d) in enumerate(sites) if b == -1)
        IN = {0: entry}
        work = [0]
        seen_out = {}
        while work:
            b = work.pop()
            cur = IN.get(b, frozenset())
            out = frozenset([last[b]]) if b in last else cur
            out = out | frozenset(partial.get(b, ()))
            if seen_out.get(b) == out:
                continue
            seen_out[b] = out
            for s_, _l in fn.succs(b):
                new = IN.get(s_, frozenset()) | out
                if new != IN.get(s_):
                    IN[s_] = new
                    work.append(s_)
                elif s_ not in seen_out:
                    work.append(s_)
        self._rd[local] = (sites, IN)
        return self._rd[local]

    def _reaching_at(self, local, block, idx):
        sites, IN = self._reaching(local)
        cur = set(IN.get(block, frozenset()))
        lim = 10**7 if idx is None else idx
        here = sorted((j, i) for i, (b, j, d) in enumerate(sites) if b == block and j < lim)
        for j, i in here:
            if sites[i][2][0] == "partial":
                cur.add(i)
            else:
                cur = {i}
        return [sites[i] for i in sorted(cur)]

    def ty_of(self, e):
        k = e[0]
        if k == "const":
            return e[2]
        if k == "place":
            return e[2]
        if k == "proj":
            return e[3]
        if k == "cast":
            return e[3]
        if k == "call":
            return e[4][2] if len(e[4]) > 2 else None
        if k == "binop":
            if e[1] in ("Eq", "Ne", "Lt", "Le", "Gt", "Ge"):
                return "bool"
            return self.ty_of(e[2])
        if k == "unop":
            return self.ty_of(e[2])
        if k == "ref":
            return self.ty_of(e[2])
        if k == "phi":
            return self.ty_of(e[2][0]) if e[2] else None
        return None

    PRIM = {"u8": 1, "i8": 1, "bool": 1, "u16": 2, "i16": 2, "u32": 4, "i32": 4, "f32": 4, "char": 4, "u64": 8, "i64": 8, "f64": 8, "usize": 8, "isize": 8, "u128": 16, "i128": 16}

    def _elem_size_lb(self, ty, depth=0):
        """Lower bound (bytes) of the size of the items of a Vec / slice / VecDeque / str type; 0 when
        the item may be zero-sized or is not understood (then len() is only bounded by usize::MAX)."""
        t = ty.strip()
        while t.startswith("&"):
            t = t[1:].lstrip()
            if t.startswith("mut "):
                t = t[4:]
        if t in ("str", "std::string::String", "alloc::string::String"):
            return 1
        m = re.match(r"^(?:std|alloc)::(?:vec::Vec|collections::VecDeque|collections::vec_deque::VecDeque)<(.+?)(?:, .*Global)?>$", t) or re.match(r"^\[(.+?)(?:; \d+(?:_usize)?)?\]$", t)
        if not m:
            return 0
        return self._size_lb(m.group(1), depth)

    def _size_lb(self, t, depth=0):
        t = t.strip()
        if t in self.PRIM:
            return self.PRIM[t]
        if depth > 3:
            return 0
        if t.startswith("(") and t.endswith(")"):
            parts = [x for x in _split_top(t[1:-1]) if x.strip()]
            return sum(self._size_lb(x, depth + 1) for x in parts)
        m = re.match(r"^\[(.+); (\d+)(?:_usize)?\]$", t)
        if m:
            return self._size_lb(m.group(1), depth + 1) * int(m.group(2))
        a = self.prog.adt_of_type(t) if hasattr(self.prog, "adt_of_type") else None
        if a and a.get("kind") == "Struct" and a["variants"]:
            return sum(self._size_lb(f["ty"], depth + 1) for f in a["variants"][0]["fields"])
        return 0

    def of(self, e, depth=0):
        """(lo, hi) or None (unknown / not an integer)."""
        if depth > 30:
            return ty_range(self.ty_of(e))
        k = e[0]
        if k == "const":
            v = e[1]
            if isinstance(v, bool):
                return (int(v), int(v))
            if isinstance(v, int):
                return (v, v)
            return ty_range(e[2])
        if k == "ref":
            return self.of(e[2], depth + 1)
        if k == "place":
            return self._place(e, depth)
        if k == "cast":
            inner = self.of(e[2], depth + 1)
            tr = ty_range(e[3])
            if inner is None:
                return tr
            if tr is None:
                return None
            if inner[0] >= tr[0] and inner[1] <= tr[1]:
                return inner
            return tr
        if k == "discr":
            names = self.prog.variant_names(self.ty_of(e[1]) or "")
            if names:
                ks = [x for x in names if isinstance(x, int)]
                if ks:
                    return (min(ks), max(ks))
            return None
        if k == "phi":
            r = None
            first = True
            for x in e[2]:
                rx = self.of(x, depth + 1)
                if rx is None:
                    return ty_range(self.ty_of(e))
                r = rx if first else _join(r, rx)
                first = False
            return r
        if k == "proj":
            base = e[1]
            if base[0] == "binop" and base[1].endswith("WithOverflow") and e[2] == ".0":
                # value after the overflow assert passed: exact arithmetic, clipped to the type
                r = self._arith(base[1][: -len("WithOverflow")], base[2], base[3], depth)
                return _meet(ty_range(self.ty_of(base[2])), r) if r else ty_range(self.ty_of(base[2]))
            return ty_range(e[3])
        if k == "binop":
            r = self._arith(e[1], e[2], e[3], depth)
            tr = ty_range(self.ty_of(e))
            if r is None:
                return tr
            if tr and (r[0] < tr[0] or r[1] > tr[1]):
                if e[1] in ("Shl", "Add", "Sub", "Mul"):
                    return tr  # wrapping / truncating
            return r
        if k == "unop":
            if e[1] == "PtrMetadata":
                sz = self._elem_size_lb(self.ty_of(e[2]) or "")
                return (0, (2**63 - 1) // sz) if sz else (0, 2**64 - 1)
            return ty_range(self.ty_of(e))
        if k == "call":
            nm = callee_name(e) or ""
            last = nm.split("::")[-1]
            cr = const_returns(self.prog, nm)
            if cr:
                return (min(cr), max(cr))
            if is_transparent(e) and e[3]:
                inner = self.of(e[3][0], depth + 1)
                return _meet(ty_range(self.ty_of(e)), inner) if inner else ty_range(self.ty_of(e))
            if last == "len" and len(e[3]) == 1:
                # the length of an array (possibly seen as a slice) is its type's
                x_ = e[3][0]
                while x_[0] in ("ref", "cast"):
                    x_ = x_[2]
                ma = re.match(r"^\[[^;\]]+; (\d+)(_usize)?\]$", (self.ty_of(x_) or "").replace("&", "").replace("mut ", "").strip())
                if ma:
                    return (int(ma.group(1)), int(ma.group(1)))
            if last == "len" and nm.startswith(("std::vec::", "alloc::vec::", "core::slice::", "std::collections::", "alloc::collections::", "core::str::", "alloc::string::", "std::string::")) and len(e[3]) == 1:
                # an allocation is at most isize::MAX bytes (language guarantee): len <= isize::MAX / size_of(item)
                sz = self._elem_size_lb(self.ty_of(e[3][0]) or "")
                return (0, (2**63 - 1) // sz) if sz else (0, 2**64 - 1)
            if last in ("min",) and len(e[3]) == 2:
                a, b = self.of(e[3][0], depth + 1), self.of(e[3][1], depth + 1)
                if a and b:
                    return (min(a[0], b[0]), min(a[1], b[1]))
                if a or b:
                    x = a or b
                    tr = ty_range(self.ty_of(e))
                    return (tr[0] if tr else 0, x[1])
            if last in ("max",) and len(e[3]) == 2:
                a, b = self.of(e[3][0], depth + 1), self.of(e[3][1], depth + 1)
                if a and b:
                    return (max(a[0], b[0]), max(a[1], b[1]))
            return ty_range(self.ty_of(e))
        return None

    def _place(self, e, depth):
        name = e[1]
        tr = ty_range(e[2])
        if not re.match(r"^[A-Za-z_][A-Za-z0-9_]*$", name) or name == "self":
            return tr
        if self.site is not None:
            return self._place_at(name, tr, depth)
        if name in self._memo:
            return self._memo[name]
        if name in self._stack:
            return tr
        self._stack.add(name)
        try:
            locs = [l for vn, l, proj in self.fn.var_places if vn == name and not proj]
            r = None
            first = True
            for l in locs:
                for d in self.fn.defs(l):
                    if d[0] == "partial" or d[0] == "arg" or d[0] == "yield":
                        return tr
                    x = self.eb._def_expr(d, 0, (l,))
                    rx = self.of(x, depth + 1)
                    if rx is None:
                        return tr
                    r = rx if first else _join(r, rx)
                    first = False
            if first:
                return tr
            r = _meet(tr, r)
        finally:
            self._stack.discard(name)
        self._memo[name] = r
        return r

    def _place_at(self, name, tr, depth):
        """Range of user variable `name` at self.site: join over the reaching definitions, each evaluated
        at its own site; self-referential updates are iterated from bottom (a few rounds), then widened
        to the type range."""
        locs = [l for vn, l, proj in self.fn.var_places if vn == name and not proj]
        if len(locs) != 1:
            return tr
        l = locs[0]
        key = (l, self.site)
        if key in self._done:
            return self._done[key]
        if key in self._approx:
            if self._approx[key] == "BOT":
                raise _Bot()  # in progress with no approximation yet: this definition contributes nothing this round
            return self._approx[key]
        saved = self.site
        self._approx[key] = "BOT"
        result = tr
        try:
            for _round in range(8):
                r = "BOT"
                unknown = False
                for b, j, d in self._reaching_at(l, saved[0], saved[1]):
                    if d[0] in ("partial", "arg", "yield"):
                        unknown = True
                        break
                    self.site = (b, j if d[0] == "assign" else None)
                    x = self.eb._def_expr(d, 0, (l,))
                    try:
                        rx = self.of(x, depth + 1)
                    except _Bot:
                        continue
                    if rx is None:
                        unknown = True
                        break
                    r = rx if r == "BOT" else _join(r, rx)
                self.site = saved
                if unknown or r == "BOT":
                    result = tr
                    break
                r = _meet(tr, r) if tr else r
                if r == self._approx[key]:
                    result = r
                    break
                self._approx[key] = r
                # nested results computed against the previous approximation are stale
                for k in [k for k in self._done if k != key]:
                    self._done.pop(k, None)
            else:
                result = tr
        finally:
            self.site = saved
            self._approx.pop(key, None)
        self._done[key] = result
        return result

    def _arith(self, op, a, b, depth):
        ra, rb = self.of(a, depth + 1), self.of(b, depth + 1)
        if op == "BitAnd":
            c = [r for r in (ra, rb) if r and r[0] == r[1] and r[0] >= 0]
            if c:
                m = min(x[0] for x in c)
                other = rb if (ra and ra[0] == ra[1] and ra[0] == m) else ra
                hi = m if not other or other[0] < 0 else min(m, other[1])
                return (0, hi)
            if ra and rb and ra[0] >= 0 and rb[0] >= 0:
                return (0, min(ra[1], rb[1]))
            return None
        if ra is None or rb is None:
            if op == "Rem" and rb and rb[0] > 0:
                return (0, rb[1] - 1)
            if op == "Shr" and ra is None:
                return None
            return None
        if op == "Add":
            return (ra[0] + rb[0], ra[1] + rb[1])
        if op == "Sub":
            return (ra[0] - rb[1], ra[1] - rb[0])
        if op == "Mul":
            c = [ra[0] * rb[0], ra[0] * rb[1], ra[1] * rb[0], ra[1] * rb[1]]
            return (min(c), max(c))
        if op == "Shr" and rb[0] >= 0 and ra[0] >= 0:
            return (ra[0] >> rb[1], ra[1] >> rb[0])
        if op == "Shl" and rb[0] >= 0 and ra[0] >= 0 and rb[1] < 200:
            return (ra[0] << rb[0], ra[1] << rb[1])
        if op == "Div" and rb[0] > 0 and ra[0] >= 0:
            return (ra[0] // rb[1], ra[1] // rb[0])
        if op == "Rem" and rb[0] > 0 and ra[0] >= 0:
            return (0, min(ra[1], rb[1] - 1))
        if op in ("BitOr", "BitXor") and ra[0] >= 0 and rb[0] >= 0:
            n = max(ra[1], rb[1]).bit_length()
            return (0, (1 << n) - 1)
        return None
