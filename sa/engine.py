"""Rule registry, instance/violation bookkeeping, known findings, evidence."""
import json
import os
import re
import sys
import time

from core import Program, rel, short
from df import Mods

VERIF = os.path.dirname(os.path.dirname(os.path.abspath(__file__)))

RULES = {}  # property id -> list of Rule


class Rule:
    def __init__(self, prop, rid, floor, desc, fn, tier="quick"):
        self.prop = prop
        self.rid = rid
        self.floor = floor
        self.desc = desc
        self.fn = fn
        self.tier = tier


def rule(prop, rid, floor, desc, tier="quick", also=()):
    """Register a rule. `floor` = number of instances confirmed by reading; a run
    with fewer instances fails closed (ANCHOR/FLOOR)."""

    def deco(fn):
        r = Rule(prop, rid, floor, desc, fn, tier)
        RULES.setdefault(prop, []).append(r)
        for p in also:
            RULES.setdefault(p, []).append(Rule(p, rid, floor, desc, fn, tier))
        return fn

    return deco


class Inst:
    """One examined rule instance."""

    def __init__(self, rid, key, where, ok, detail, nontrivial=True, undecided=False, anchor=False):
        self.rid = rid
        self.key = key  # semantic key: no line numbers
        self.where = where
        self.ok = ok
        self.detail = detail
        self.nontrivial = nontrivial
        self.undecided = undecided
        self.anchor = anchor

    def full_key(self):
        return "%s:%s" % (self.rid, self.key)

    def to_json(self):
        return {
            "rule": self.rid,
            "key": self.key,
            "where": self.where,
            "verdict": "ok" if self.ok else ("anchor-missing" if self.anchor else ("undecided" if self.undecided else "violation")),
            "detail": self.detail,
        }


def ok(rid, key, where, detail, nontrivial=True):
    return Inst(rid, key, where, True, detail, nontrivial)


def bad(rid, key, where, detail):
    return Inst(rid, key, where, False, detail)


def undecided(rid, key, where, detail):
    return Inst(rid, key, where, False, detail, undecided=True)


def anchor_missing(rid, what):
    return Inst(rid, "anchor:" + what, "-", False, "ANCHOR-MISSING: " + what + " (renamed or removed? update the anchor table)", anchor=True)


def at(fn, line=None):
    return "%s:%d (%s)" % (rel(fn.file), line if line is not None else fn.line, short(fn.norm))


class Ctx:
    def __init__(self, facts, tree_hash, tier, facts_rel=None):
        from normalise import normalise, load_pin
        import core

        _pin = load_pin()
        core.set_canon({k: set(v) for k, v in (_pin.get("binops") or {}).items()}, {k: set(v) for k, v in (_pin.get("vars") or {}).items()})

        # normalisation (identity on the pinned tree): renamed private functions / fields / variants are
        # re-bound to the pinned names, new private helpers are spliced into their callers
        facts, self.normalised = normalise(facts)
        self.inlined = self.normalised["inlined"]
        if facts_rel:
            facts_rel, _ = normalise(facts_rel)
        self.facts = facts
        self.tree_hash = tree_hash
        self.tier = tier
        self.prog = Program(facts)
        self.mods = Mods(self.prog)
        self.cache = {}
        self.rel_prog = Program(facts_rel) if facts_rel else None
        self.stats = {"functions": len(self.prog.by_norm)}

    def one(self, rid, suffix):
        """The unique function with this normalised-path suffix, else raise Anchor."""
        fs = self.prog.find(suffix)
        if len(fs) == 0:
            # a function of the pinned tree that was inlined into its only caller and deleted: its code now
            # lives in that caller - look there (site-based rules find their sites; anything else fails closed)
            from normalise import load_pin

            info = load_pin().get("fn_info") or {}
            pinned = [k for k in info if k == suffix or k.endswith("::" + suffix)]
            if len(pinned) == 1:
                alive = [c for c in info[pinned[0]].get("callers", []) if c in self.prog.by_norm and c != pinned[0]]
                if len(alive) == 1:
                    self.stats.setdefault("anchor_fallbacks", []).append({"missing": pinned[0], "looked_in_caller": alive[0], "rule": rid})
                    return self.prog.by_norm[alive[0]]
        if len(fs) != 1:
            raise Anchor(rid, "%s (%d matches)" % (suffix, len(fs)))
        return fs[0]


class Anchor(Exception):
    def __init__(self, rid, what):
        Exception.__init__(self, what)
        self.rid = rid
        self.what = what


def load_known():
    p = os.path.join(VERIF, "known_findings.json")
    if not os.path.exists(p):
        return []
    with open(p) as fh:
        return json.load(fh)["findings"]


def run_property(ctx, prop):
    """Run all rules of a property. Returns (instances, rule_reports)."""
    insts = []
    reports = []
    for r in RULES.get(prop, []):
        if r.tier == "thorough" and ctx.tier != "thorough":
            continue
        t0 = time.time()

        def evaluate():
            try:
                return list(r.fn(ctx))
            except Anchor as a:
                return [anchor_missing(r.rid, a.what)]
            except Exception as ex:  # an idiom the rule's code does not handle: fail closed, say where
                import traceback

                tb = traceback.extract_tb(ex.__traceback__)[-1]
                return [undecided(r.rid, "%s:internal" % r.rid, "-", "the rule could not be evaluated on this tree (%s: %s at %s:%d): an idiom outside what the analysis models" % (type(ex).__name__, str(ex)[:160], os.path.basename(tb.filename), tb.lineno))]

        got = evaluate()
        if any(not i.ok for i in got):
            # Two equivalent readings of the same code: with the `let`s the pinned tree does not have looked
            # through (a named sub-expression is its expression), and with every variable kept as written.
            # Each reading is sound on its own; a rule that is satisfied under either is satisfied.
            import core as _core

            _core.LOOK_THROUGH_DEFAULT[0] = False
            saved_cache = dict(ctx.cache)
            try:
                ctx.cache.clear()
                alt = evaluate()
            finally:
                _core.LOOK_THROUGH_DEFAULT[0] = True
                ctx.cache.clear()
                ctx.cache.update(saved_cache)
            if not any(not i.ok for i in alt):
                got = alt
        n = len([i for i in got if not i.anchor])
        if n < r.floor and not any(i.anchor for i in got):
            got.append(
                Inst(r.rid, "floor", "-", False, "FLOOR: rule matched %d instance(s), %d were confirmed by reading; the rule would pass vacuously" % (n, r.floor), anchor=True)
            )
        insts.extend(got)
        reports.append({"rule": r.rid, "desc": r.desc, "instances": n, "floor": r.floor, "violations": len([i for i in got if not i.ok]), "wall_s": round(time.time() - t0, 3)})
    return insts, reports


def finish(prop, ctx, insts, reports, wall, explanation, not_decided, extra=None, seed=0, scratch=False):
    """Apply known findings, write replay files and evidence, print the verdict lines.
    Returns the process exit code."""
    known = [k for k in load_known() if k["property"] == prop]
    known_keys = {k["key"]: k for k in known if k.get("status") == "known"}
    out_dir = os.path.join(VERIF, "out", ("scratch-" if scratch else "") + prop)
    os.makedirs(out_dir, exist_ok=True)
    for f in os.listdir(out_dir):
        os.unlink(os.path.join(out_dir, f))
    violations = []
    matched_known = []
    for i in insts:
        if i.ok:
            continue
        fk = i.full_key()
        if fk in known_keys and not i.anchor:
            matched_known.append(fk)
            print("KNOWN-FINDING: property=%s %s [%s at %s]" % (prop, known_keys[fk]["what"], fk, i.where))
            continue
        violations.append(i)
    for i in violations:
        name = re.sub(r"[^A-Za-z0-9_.-]+", "_", i.full_key())[:150]
        path = os.path.join(out_dir, name + ".json")
        with open(path, "w") as fh:
            json.dump({"property": prop, "tree_hash": ctx.tree_hash, **i.to_json()}, fh, indent=1)
        kind = "ANCHOR-MISSING/FLOOR (fail-closed; not a rule violation)" if i.anchor else ("UNDECIDED (fail-closed)" if i.undecided else "rule violated")
        print("  %s: %s at %s\n      %s" % (kind, i.full_key(), i.where, i.detail if isinstance(i.detail, str) else json.dumps(i.detail)[:600]))
        print("VIOLATION property=%s replay=%s" % (prop, path))
    examined = [i for i in insts if not i.anchor]
    distinct_nt = len({i.full_key() for i in examined if i.nontrivial})
    samples = [i.to_json() for i in examined[:6]]
    bad_samples = [i.to_json() for i in insts if not i.ok][:6]
    cov = {
        "explanation": explanation,
        "not_decided": not_decided,
        "obligations": len(examined),
        "discharged": len([i for i in examined if i.ok]),
        "evaluations": len(examined),
        "distinct_nontrivial": distinct_nt,
        "rule": "one evaluation = one rule instance (call site, store, aggregate, bit field, assert, path) found in the type-checked program; non-trivial = the instance has at least one feasible path/site to decide (not a vacuous match); distinct = distinct semantic keys (rule, function, discriminator)",
        "samples": samples + bad_samples,
        "rules": reports,
        "functions_analysed": ctx.stats.get("functions"),
        "positive_controls": ctx.stats.get("positive_controls"),
        "normalisation": getattr(ctx, "normalised", {}),
        "anchor_fallbacks": ctx.stats.get("anchor_fallbacks", []),
        "tree_hash": ctx.tree_hash,
        "known_findings_matched": matched_known,
        "checker_cmd": "./check %s --tier %s" % (prop, ctx.tier),
        "trusted_base": [
            "rustc 1.97 nightly HIR/MIR construction and trait resolution (facts come from tcx.mir_built)",
            "semantics of std/tokio/camino/byteorder/num-traits callees as summarised in sa/tables.py",
            "the analyses in /verif/sa (expression reconstruction, world-set dataflow, mod summaries)",
        ],
        "exhaustive": True,
    }
    if extra:
        cov.update(extra)
    ev = {
        "property_id": prop,
        "tier": ctx.tier,
        "seed": seed,
        "level": "other",
        "coverage": cov,
        "assumptions": [
            "the structural clause decided here is a necessary condition of the property, not the whole behaviour (see coverage.not_decided)",
            "single build configuration: workspace lib targets, no cargo features, cfg(test) code excluded",
            "panics in external crates and unwinding paths are outside the analysed control flow",
        ],
        "wall_s": round(wall, 3),
        "violations": len(violations),
    }
    ev_dir = os.path.join(VERIF, "out", "scratch-evidence") if scratch else os.path.join(VERIF, "evidence")
    os.makedirs(ev_dir, exist_ok=True)
    with open(os.path.join(ev_dir, prop + ".json"), "w") as fh:
        json.dump(ev, fh, indent=1, default=str)
    for r in reports:
        print("  rule %-8s instances=%-3d floor=%-3d violations=%d  %s" % (r["rule"], r["instances"], r["floor"], r["violations"], r["desc"][:90]))
    print("%s: %d instance(s) examined, %d ok, %d violation(s), %d known finding(s) [tier=%s tree=%s %.1fs]" % (prop, len(examined), len([i for i in examined if i.ok]), len(violations), len(matched_known), ctx.tier, ctx.tree_hash, wall))
    return 1 if violations else 0
